"""C16  Excel cells render as documented text and the requested sheet is read.  (DESIGN.md section 6, C16)

Symbolic (S-XLRD): sheet selection, string / boolean dispatch, rectangular rows.  Number, date and time rendering
go through str(float) / xlrd.xldate_as_tuple / datetime (C, floats): exercised natively on real .xlsx files made by
an independent producer (xlsxwriter), as is the XlsxRowWriter round trip."""
import datetime

from vlib.engine import Query, assume
from vlib.envstubs import patched
from vlib import rowflow as rf

FUNCS = ("cutplace.rowio.excel_rows", "cutplace.rowio._excel_cell_value", "cutplace.rowio.XlsxRowWriter.write_row")


class FakeCell:
    def __init__(self, ctype, value):
        self.ctype = ctype
        self.value = value


class FakeSheet:
    def __init__(self, rows, ncols):
        self._rows = rows
        self.nrows = len(rows)
        self.ncols = ncols

    def cell(self, y, x):
        row = self._rows[y]
        if x < len(row):
            return row[x]
        return FakeCell(0, "")  # xlrd pads short rows with empty cells


class FakeBook:
    def __init__(self, sheets):
        self._sheets = sheets
        self.nsheets = len(sheets)
        self.datemode = 0
        self.requested = []

    def sheet_by_index(self, i):
        self.requested.append(i)
        return self._sheets[i]  # IndexError like xlrd for a sheet that does not exist

    def __enter__(self):
        return self

    def __exit__(self, *exc):
        return False


class FakeIo:
    """rowio.io stand-in: open(path, 'rb') yields empty bytes (the workbook itself comes from the S-XLRD stub)"""

    def __getattr__(self, name):
        import io
        return getattr(io, name)

    def open(self, path, mode="r", **kw):
        import io
        return io.BytesIO(b"")


class FakeXlrd:
    def __init__(self, book):
        import xlrd
        self._real = xlrd
        self._book = book

    def __getattr__(self, name):
        return getattr(self._real, name)

    def open_workbook(self, path, *a, **k):
        return self._book


def make_sheets():
    def go(k, s0, s1, b0, b1):
        from cutplace import rowio, errors

        assume(1 <= k <= 4)
        for s in (s0, s1):
            assume(len(s) <= 3)
        TEXT, BOOL, EMPTY = 1, 4, 0
        sheets = [
            FakeSheet([[FakeCell(TEXT, "one")]], 1),
            FakeSheet([[FakeCell(TEXT, s0), FakeCell(BOOL, 1 if b0 else 0), FakeCell(TEXT, "x")],
                       [FakeCell(BOOL, 1 if b1 else 0), FakeCell(TEXT, s1)]], 3),
            FakeSheet([], 0),
        ]
        book = FakeBook(sheets)
        with patched(rf.smart_repr(), (rowio, "xlrd", FakeXlrd(book)), (rowio, "io", FakeIo())):
            try:
                got = list(rowio.excel_rows("stub.xlsx", k))
                failed = False
            except errors.DataFormatError:
                got, failed = None, True
        if k == 4:
            return failed, "missing"
        if failed:
            return False, "unexpected-error"
        exp = [[["one"]], [[s0, "1" if b0 else "0", "x"], ["1" if b1 else "0", s1, ""]], []][k - 1]
        if len(got) != len(exp):
            return False, "rows"
        for g, e in zip(got, exp):
            if len(g) != len(e):
                return False, "width"
            for a, b in zip(g, e):
                if a != b:
                    return False, "cell"
        return True, ("sheet1", "sheet2", "sheet3")[k - 1]

    def mk(mode):
        def h(k: int, s0: str, s1: str, b0: bool, b1: bool):
            return go(k, s0, s1, b0, b1)

        return h

    def replay(args):
        import os
        import shutil
        import tempfile
        import xlsxwriter
        from cutplace import rowio, errors
        d = tempfile.mkdtemp()
        try:
            p = os.path.join(d, "t.xlsx")
            wb = xlsxwriter.Workbook(p)
            ws = wb.add_worksheet()
            ws.write_string(0, 0, "one")
            ws = wb.add_worksheet()
            s0 = "".join(c for c in args["s0"] if c.isprintable()) or "s"
            s1 = "".join(c for c in args["s1"] if c.isprintable()) or "t"
            ws.write_string(0, 0, s0)
            ws.write_boolean(0, 1, args["b0"])
            ws.write_string(0, 2, "x")
            ws.write_boolean(1, 0, args["b1"])
            ws.write_string(1, 1, s1)
            wb.add_worksheet()
            wb.close()
            exp = [[["one"]], [[s0, "1" if args["b0"] else "0", "x"], ["1" if args["b1"] else "0", s1, ""]], []]
            k = args["k"]
            try:
                got = list(rowio.excel_rows(p, k))
            except errors.DataFormatError:
                got = "dfe"
            except Exception as e:  # noqa
                return True, "excel_rows(sheet=%d): %s: %s" % (k, type(e).__name__, e), "excel-sheet"
            want = "dfe" if k == 4 else exp[k - 1]
            return got != want, "excel_rows(sheet=%d) -> %r expected %r" % (k, got, want), "excel-sheet"
        finally:
            shutil.rmtree(d)

    return mk, replay


def expected_number_text(v):
    t = repr(float(v))
    return t[:-2] if t.endswith(".0") else t


def native_checks():
    """real .xlsx files made by xlsxwriter, read by excel_rows (number / date / time rendering, writer round trip)"""
    import os
    import shutil
    import tempfile
    import xlsxwriter
    from cutplace import rowio
    failures = []
    samples = []
    n = 0
    d = tempfile.mkdtemp()
    try:
        numbers = [0, 1, -1, 17, 100, 1000000, 2 ** 31, 2 ** 53, -2 ** 53, 1.5, -0.25, 0.1, 1 / 3, 1e15, 1e16, 1e20, 1.5e20,
                   2.5e30, 1e100, 1e-4, 1e-5, 1e-10, 123456.789, 7e-300, 120, 1200000.0, 3.0e10, 10 ** 22]
        p = os.path.join(d, "numbers.xlsx")
        wb = xlsxwriter.Workbook(p)
        ws = wb.add_worksheet()
        for i, v in enumerate(numbers):
            ws.write_number(i, 0, v)
        wb.close()
        got = list(rowio.excel_rows(p, 1))
        for v, row in zip(numbers, got):
            n += 1
            exp = expected_number_text(v)
            if row != [exp]:
                failures.append(dict(key="excel-number-rendering", what="number %r rendered as %r, expected %r" % (v, row, exp),
                                     args=dict(value=repr(v))))
            elif len(samples) < 2:
                samples.append(dict(query="native/number", value=repr(v), text=exp))
        # dates and times
        dates = [datetime.datetime(2020, 5, 17, 13, 45, 30, 250000), datetime.datetime(2020, 5, 17, 13, 45, 30, 499000),
                 datetime.datetime(1900, 3, 1, 0, 0, 0), datetime.datetime(1999, 12, 31, 23, 59, 59),
                 datetime.datetime(2000, 2, 29, 12, 0, 0), datetime.datetime(2021, 3, 17, 0, 0, 0),
                 datetime.datetime(9999, 12, 31, 0, 0, 1), datetime.datetime(1970, 1, 1, 6, 30, 0)]
        times = [datetime.time(0, 0, 1), datetime.time(12, 0, 0), datetime.time(23, 59, 59), datetime.time(6, 30, 15),
                 datetime.time(13, 45, 30, 250000)]
        p = os.path.join(d, "dates.xlsx")
        wb = xlsxwriter.Workbook(p)
        ws = wb.add_worksheet()
        df = wb.add_format({"num_format": "yyyy-mm-dd hh:mm:ss"})
        tf = wb.add_format({"num_format": "hh:mm:ss"})
        for i, v in enumerate(dates):
            ws.write_datetime(i, 0, v, df)
        for i, v in enumerate(times):
            ws.write_datetime(len(dates) + i, 0, v, tf)
        wb.close()
        got = list(rowio.excel_rows(p, 1))
        for v, row in zip(dates + times, got):
            n += 1
            exp = v.strftime("%Y-%m-%d %H:%M:%S") if isinstance(v, datetime.datetime) else v.strftime("%H:%M:%S")
            if isinstance(v, datetime.datetime):
                exp = "%04d-%02d-%02d %02d:%02d:%02d" % (v.year, v.month, v.day, v.hour, v.minute, v.second)
            if row != [exp]:
                failures.append(dict(key="excel-date-rendering", what="%r rendered as %r, expected %r" % (v, row, exp),
                                     args=dict(value=repr(v))))
        # the 1904 date system
        n += 1
        p = os.path.join(d, "dates1904.xlsx")
        wb = xlsxwriter.Workbook(p, {"date_1904": True})
        ws = wb.add_worksheet()
        df4 = wb.add_format({"num_format": "yyyy-mm-dd hh:mm:ss"})
        ws.write_datetime(0, 0, datetime.datetime(2015, 3, 14, 9, 26, 53), df4)
        ws.write_datetime(1, 0, datetime.datetime(1999, 12, 31, 0, 0, 0), df4)
        wb.close()
        got = list(rowio.excel_rows(p, 1))
        if got != [["2015-03-14 09:26:53"], ["1999-12-31 00:00:00"]]:
            failures.append(dict(key="excel-date-rendering", what="workbook in the 1904 date system read as %r" % (got,), args=dict(datemode=1904)))
        # cells of different kinds that store the same number (a time is a fraction of a day, a date a day count,
        # a boolean 0/1): each is rendered by its own kind, in whatever order they occur in the sheet
        n += 1
        p = os.path.join(d, "kinds.xlsx")
        wb = xlsxwriter.Workbook(p)
        ws = wb.add_worksheet()
        dfk = wb.add_format({"num_format": "yyyy-mm-dd hh:mm:ss"})
        tfk = wb.add_format({"num_format": "hh:mm:ss"})
        ws.write_number(0, 0, 0.5)
        ws.write_datetime(0, 1, datetime.time(12, 0, 0), tfk)
        ws.write_string(0, 2, "0.5")
        ws.write_datetime(1, 0, datetime.datetime(2021, 1, 1), dfk)
        ws.write_number(1, 1, 44197)
        ws.write_string(1, 2, "44197")
        ws.write_boolean(2, 0, True)
        ws.write_number(2, 1, 1)
        ws.write_string(2, 2, "1")
        ws.write_datetime(3, 0, datetime.time(12, 0, 0), tfk)
        ws.write_number(3, 1, 0.5)
        ws.write_number(3, 2, 44197)
        ws.write_string(4, 0, "10.0.0.0")
        ws.write_string(4, 1, "v2.0")
        ws.write_string(4, 2, "17.0")
        wb.close()
        got = list(rowio.excel_rows(p, 1))
        expk = [["0.5", "12:00:00", "0.5"], ["2021-01-01 00:00:00", "44197", "44197"], ["1", "1", "1"],
                ["12:00:00", "0.5", "44197"], ["10.0.0.0", "v2.0", "17.0"]]
        if got != expk:
            failures.append(dict(key="excel-cell-kinds", what="cells of different kinds with equal stored values read as %r, expected %r" % (got, expk),
                                 args={}))
        # a workbook with two different sheets read through the validator: the CID's Sheet property decides
        from cutplace import interface, validio, errors as cerrors
        n += 1
        p = os.path.join(d, "two_sheets.xlsx")
        wb = xlsxwriter.Workbook(p)
        ws1 = wb.add_worksheet()
        ws2 = wb.add_worksheet()
        for y, row in enumerate([["1", "a"], ["2", "b"]]):
            for x, c in enumerate(row):
                ws1.write_string(y, x, c)
        for y, row in enumerate([["7", "x"], ["broken", "y"], ["9", "z"]]):
            for x, c in enumerate(row):
                ws2.write_string(y, x, c)
        wb.close()
        seen = {}
        for sheet in (None, 1, 2):
            cid = interface.create_cid_from_string("d,format,excel\n%sf,id,,,,Integer\nf,name\n" % ("" if sheet is None else "d,sheet,%d\n" % sheet))
            try:
                seen[sheet] = ["error" if isinstance(r, cerrors.DataError) else r for r in validio.rows(cid, p, on_error="yield")]
            except Exception as e:  # noqa
                seen[sheet] = "%s: %s" % (type(e).__name__, e)
        if seen != {None: [["1", "a"], ["2", "b"]], 1: [["1", "a"], ["2", "b"]], 2: [["7", "x"], "error", ["9", "z"]]}:
            failures.append(dict(key="excel-sheet-through-reader", what="two-sheet workbook read under Sheet unset / 1 / 2: %r" % (seen,), args={}))
        # a sheet whose rows end in cells that are not stored (first row short, widest row last): padded to the sheet's width
        n += 1
        p = os.path.join(d, "ragged.xlsx")
        wb = xlsxwriter.Workbook(p)
        ws = wb.add_worksheet()
        stored = [["a"], ["b", "c"], [], ["d", "", "e"], ["f"]]
        for y, row in enumerate(stored):
            for x, c in enumerate(row):
                if c != "":
                    ws.write_string(y, x, c)
        wb.close()
        try:
            got = list(rowio.excel_rows(p, 1))
        except Exception as e:  # noqa
            got = "%s: %s" % (type(e).__name__, e)
        if got != [["a", "", ""], ["b", "c", ""], ["", "", ""], ["d", "", "e"], ["f", "", ""]]:
            failures.append(dict(key="excel-padding", what="sheet with rows of 1, 2, 0, 3, 1 stored cells read as %r" % (got,), args={}))
        # XlsxRowWriter round trip
        tables = [
            [["a", "b"], ["c", ""]],
            [["1", "Doe", "", "male"], ["", "x", "", ""], ["", "", "", "last"]],
            [["=1+2", "mailto:x@example.com"], ["internal:Sheet1!A1", "{=SUM(1,2)}"], ["http://example.com", "ftp://x"]],
            [["äöü€", " lead", "trail "], ["<&>", "'quoted'", '"dq"']],
            [["1", "1.0", "007"], ["TRUE", "2021-03-17", "12:00:00"]],
            [["x" * 32767, "y" * 32766], ["z" * 1000, "0"]],  # 32767 characters: the longest text a cell can hold
            [["a", "", ""], ["b", "c", "d"], ["", "", ""], ["e", "", "f"]],
        ]
        for ti, table in enumerate(tables):
            n += 1
            p = os.path.join(d, "rt%d.xlsx" % ti)
            try:
                w = rowio.XlsxRowWriter(p)
                w.write_rows(table)
                w.close()
                got = list(rowio.excel_rows(p, 1))
            except Exception as e:  # noqa
                got = "%s: %s" % (type(e).__name__, str(e)[:200])
            if got != table:
                short = [[c if len(c) < 60 else "%s... (%d characters)" % (c[:10], len(c)) for c in r] for r in table]
                got_short = got if not isinstance(got, list) else [[c if len(c) < 60 else "%s... (%d characters)" % (c[:10], len(c)) for c in r] for r in got]
                failures.append(dict(key="xlsx-writer-round-trip", what="table %r written with XlsxRowWriter reads back as %r" % (short, got_short),
                                     args=dict(table=short)))
    finally:
        shutil.rmtree(d)
    return dict(count=n, failures=failures, samples=samples)


def build(tier, seed):
    mk, rp = make_sheets()
    q = [Query("C16/sheet-dispatch-padding", "excel-sheet", mk,
               "fake 3-sheet workbook: requested sheet 1..4, two string cells (any text, len<=3), two boolean cells, a short "
               "second row (padding)", budget_s=300, expect=("sheet1", "sheet2", "sheet3", "missing"), replay=rp,
               functions=FUNCS, stubs=("S-XLRD rowio.xlrd.open_workbook -> fake book", "S-FMT"))]
    return dict(queries=q, native=native_checks,
                assumptions=["xlrd delivers cells as (ctype, value) and pads short rows with empty cells"],
                outside_claim=["number, date and time rendering and the xlsx writer round trip are float / C territory: "
                               "exercised natively on sample workbooks, not decided by the solver"],
                exhaustive=False)


def replay_case(case):
    q = build("quick", 0)["queries"][0]
    if case.get("query") == q.qid:
        rep, detail, _ = q.replay(case["args"])
        return rep, detail
    return False, "native cases: re-run ./check C16"
