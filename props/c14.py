"""C14  A validating writer emits only conforming rows; its output validates again.  (DESIGN.md section 6, C14)

(w) real Writer + real FixedRowWriter on a recording stream: the chunks written are the written form of exactly the
    accepted rows;  (d) delimited: the rows handed to the csv writer (S-CSVW) are exactly the accepted rows;
(r) read-back: every text in written form (records of cells each accepted by its field, padded, separated by the
    declared delimiter) is accepted row by row by real fixed_rows + Reader and returns the written cells."""
from vlib.engine import Query, assume
from vlib.envstubs import patched
from vlib import rowflow as rf
from vlib import fieldfam as ff
from props.c13 import Stream

FUNCS = ("cutplace.validio.Writer.__init__", "cutplace.validio.Writer.write_row", "cutplace.validio.Writer._padded_fixed_row",
         "cutplace.validio.Writer.close", "cutplace.validio.BaseValidator.validate_row", "cutplace.rowio.FixedRowWriter.write_row",
         "cutplace.rowio.DelimitedRowWriter.write_row", "cutplace.rowio.fixed_rows", "cutplace.validio.Reader.rows",
         "cutplace.fields.AbstractFieldFormat.validated")
WIDTHS = (2, 1)
FIXED_CID = ("d,format,fixed\nd,line delimiter,%s\nd,header,%d\nf,a,,,2,Text\nf,b,,X,1,Text\n")
SEP = {"lf": "\n", "crlf": "\r\n", "cr": "\r", "none": ""}


class WriteStream:
    """S-STREAM (write side): records what is written; a write() call is all-or-nothing like TextIOWrapper.write, and
    raises UnicodeEncodeError when the text holds a character at or above `encodable_below` (None: everything encodes)"""

    def __init__(self, encodable_below=None):
        self.chunks = []
        self.encodable_below = encodable_below
        self.closed = False

    def write(self, s):
        if self.encodable_below is not None:
            for ch in s:
                if ord(ch) >= self.encodable_below:
                    raise UnicodeEncodeError("ascii", "?", 0, 1, "ordinal not in range (stub)")
        self.chunks.append(s)

    def writelines(self, lines):
        for line in lines:
            self.write(line)

    def close(self):
        self.closed = True

    def flat(self):
        """the code points written so far, whatever the chunking"""
        out = []
        for chunk in self.chunks:
            for ch in chunk:
                out.append(ord(ch))
        return out


def cell_verdict(j, cell):
    """fixed format guards of field j: 'ok' / 'reject' (cells the property is silent about are assumed away)"""
    kind, _ = ff.guard_oracle(cell, "fixed", j == 1, [(WIDTHS[j], WIDTHS[j])], None, width=WIDTHS[j])
    return kind != "reject"


def chunk_is_padded(chunk, offset, cell, width):
    if len(cell) > width:
        return False
    for i in range(width):
        o = ord(chunk[offset + i])
        if i < len(cell):
            if o != ord(cell[i]):
                return False
        elif o != 32:
            return False
    return True


def make_fixed_write(nrows, delim, widths_of_rows, concrete=None, encodable_below=None):
    concrete = concrete or {}
    text0 = FIXED_CID % (delim, 0)
    text1 = FIXED_CID % (delim, 1)
    sep = SEP[delim]

    def go(header, cells):
        from cutplace import validio, errors

        assume(0 <= header <= 1)
        cid = rf.build_cid(text1 if header else text0)
        rows = []
        k = 0
        for r in range(nrows):
            if r in concrete:
                rows.append(list(concrete[r]))
                continue
            row = []
            for j in range(widths_of_rows[r]):
                row.append(cells[k])
                k += 1
            rows.append(row)
        for r, row in enumerate(rows):
            if r in concrete:
                continue
            for j, c in enumerate(row):
                assume(len(c) <= (WIDTHS[j] + 1 if j < 2 else 1))
                for ch in c:
                    assume(ord(ch) < (128 if encodable_below is None else 256))
        stream = WriteStream(encodable_below)
        accepted = []
        outcome = []
        with patched(rf.smart_repr()):
            writer = validio.Writer(cid, stream)
            written = 0
            for row in rows:
                if written < header:
                    # header rows are written unvalidated; malformed header rows are outside the claim
                    assume(len(row) == 2)
                    assume(len(row[0]) <= 2 and len(row[1]) <= 1)
                    exp_ok = True
                else:
                    exp_ok = len(row) == 2 and cell_verdict(0, row[0]) and cell_verdict(1, row[1])
                if exp_ok and encodable_below is not None:
                    # a row the target cannot encode is rejected (DataFormatError) and nothing of it is emitted
                    for c in row:
                        for ch in c:
                            if ord(ch) >= encodable_below:
                                exp_ok = False
                try:
                    writer.write_row(row)
                    got_ok = True
                except errors.DataError:
                    got_ok = False
                outcome.append((got_ok, exp_ok))
                if exp_ok:
                    accepted.append(row)
                    written += 1
            writer.close()
        for got_ok, exp_ok in outcome:
            if got_ok != exp_ok:
                return False, "verdict", "write_row verdicts %r (got, expected)" % (outcome,)
        flat = stream.flat()
        reclen = 3 + len(sep)
        if len(flat) != reclen * len(accepted):
            return False, "length", "%d characters written for %d accepted rows" % (len(flat), len(accepted))
        for i, row in enumerate(accepted):
            base = i * reclen
            for j, (off, width) in enumerate(((0, 2), (2, 1))):
                cell = row[j]
                for x in range(width):
                    want = ord(cell[x]) if x < len(cell) else 32
                    if flat[base + off + x] != want:
                        return False, "record", "record %d differs from the padded row %r" % (i, row)
            for x, ch in enumerate(sep):
                if flat[base + 3 + x] != ord(ch):
                    return False, "separator", "line %d not ended by %r" % (i, sep)
        return True, "acc%d-of%d" % (len(accepted), nrows), ""

    def mk(mode):
        def h(header: int, c0: str, c1: str, c2: str, c3: str, c4: str, c5: str):
            ok, cls, _ = go(header, [c0, c1, c2, c3, c4, c5])
            return ok, cls

        return h

    def replay(args):
        """real io.StringIO target, then the produced text is read back under the same CID"""
        import io
        from cutplace import interface, validio, errors
        cells = [args["c%d" % i] for i in range(6)]
        header = args["header"]
        cid = interface.create_cid_from_string(text1 if header else text0)
        rows = []
        k = 0
        for r in range(nrows):
            if r in concrete:
                rows.append(list(concrete[r]))
                continue
            rows.append(cells[k:k + widths_of_rows[r]])
            k += widths_of_rows[r]
        out = io.StringIO(newline="")
        accepted = []
        try:
            w = validio.Writer(cid, out)
            for row in rows:
                try:
                    w.write_row(row)
                    accepted.append(row)
                except errors.DataError:
                    pass
            w.close()
        except Exception as e:  # noqa
            return True, "writing %r raised %s: %s" % (rows, type(e).__name__, e), "writer-fixed"
        exp = "".join(row[0].ljust(2) + row[1].ljust(1) + sep for row in accepted)
        ok, _, detail = go(header, cells) if True else (True, "", "")
        bad = out.getvalue() != exp or not ok
        back = None
        if not bad:
            cid2 = interface.create_cid_from_string(text1 if header else text0)
            try:
                back = list(validio.rows(cid2, io.StringIO(out.getvalue(), newline=""), on_error="yield"))
                data_rows = accepted[header:]
                if len(back) != len(data_rows) or any(isinstance(b, Exception) for b in back):
                    bad = True
            except Exception as e:  # noqa
                bad = True
                back = "%s: %s" % (type(e).__name__, e)
        return bad, "header %d rows %r -> output %r (expected %r), read back %r; %s" % (
            header, rows, out.getvalue(), exp, back, detail), "writer-fixed"

    return mk, replay


def make_encoding_replay(delim):
    """real replay of the encoding-fault query: an ASCII encoded file as target (path), the row from the model and a
    row with an unencodable character in the second field; afterwards the file holds exactly the accepted rows"""

    def replay(args):
        import os
        import shutil
        import tempfile
        from cutplace import interface, validio, errors
        text = "d,format,fixed\nd,line delimiter,%s\nd,encoding,ascii\nf,a,,,2,Text\nf,b,,X,1,Text\n" % delim
        sep = SEP[delim]
        d = tempfile.mkdtemp()
        try:
            p = os.path.join(d, "out.txt")
            cid = interface.create_cid_from_string(text)
            rows = [[args["c0"], args["c1"]], ["ab", "\xe9"], ["cd", "e"]]
            accepted = []
            w = validio.Writer(cid, p)
            for row in rows:
                try:
                    w.write_row(row)
                    accepted.append(row)
                except errors.DataError:
                    pass
                except Exception as e:  # noqa
                    return True, "write_row(%r) raised %s: %s" % (row, type(e).__name__, e), "writer-fixed-encoding"
            w.close()
            with open(p, "r", encoding="ascii", newline="") as f:
                content = f.read()
            exp = "".join(r[0].ljust(2) + r[1].ljust(1) + sep for r in accepted)
            return content != exp, "rows %r: accepted %r, file holds %r, expected %r" % (rows, accepted, content, exp), \
                "writer-fixed-encoding"
        finally:
            shutil.rmtree(d)

    return replay


def make_delimited_write(nrows, widths_of_rows, unique, header=0, batches=False):
    """header: Header property of the CID (the first `header` rows written are not validated); batches: the first row
    goes through write_row(), every further row through its own write_rows([row]) call"""
    keys = ("t12", "t01")
    checks = ("c,u,IsUnique,%s" % rf.field_names(keys)[0],) if unique else ()
    text = rf.cid_text(keys, checks=checks, extra=("d,header,%d" % header,) if header else ())

    def go(cells):
        from cutplace import validio, errors, _compat

        rows = []
        k = 0
        for r in range(nrows):
            rows.append([cells[k + j] for j in range(widths_of_rows[r])])
            k += widths_of_rows[r]
        for c in cells[:k]:
            assume(len(c) <= 2)
        if unique:
            for row in rows:
                if len(row) > 0:
                    assume(len(row[0]) == 0 or 97 <= ord(row[0][0]) <= 98)
                    assume(len(row[0]) <= 1)
        handed = []

        class Recorder:
            def writerow(self, row):
                handed.append(list(row))

        cid = rf.build_cid(text)
        seen = {}
        expected = []
        verdicts = []
        with patched(rf.smart_repr(), (_compat, "csv_writer", lambda stream, **kw: Recorder())):
            writer = validio.Writer(cid, object())
            written = 0
            for ri, row in enumerate(rows):
                ok_row = len(row) == 2 and rf.FIELD_POOL["t12"].ok(row[0]) and rf.FIELD_POOL["t01"].ok(row[1])
                if written < header:
                    ok_row = True  # a header row is written as it is
                if ok_row and unique and written >= header:
                    with rf.untraced():
                        pass
                    key = row[0]
                    dup = False
                    for s in seen:
                        if s == key:
                            dup = True
                    if dup:
                        ok_row = False
                    else:
                        seen[key] = True
                try:
                    if batches and ri > 0:
                        writer.write_rows([row])
                    else:
                        writer.write_row(row)
                    got = True
                except errors.DataError:
                    got = False
                verdicts.append((got, ok_row))
                if ok_row:
                    expected.append(row)
                    written += 1
            writer.close()
        for got, exp in verdicts:
            if got != exp:
                return False, "verdict", "verdicts %r" % (verdicts,)
        if len(handed) != len(expected):
            return False, "count", "%d rows handed to the csv writer, %d accepted" % (len(handed), len(expected))
        for a, b in zip(handed, expected):
            if len(a) != len(b) or any(x != y for x, y in zip(a, b)):
                return False, "rows", "csv writer got %r expected %r" % (handed, expected)
        return True, "acc%d-of%d" % (len(expected), nrows), ""

    def mk(mode):
        def h(c0: str, c1: str, c2: str, c3: str, c4: str, c5: str):
            ok, cls, _ = go([c0, c1, c2, c3, c4, c5])
            return ok, cls

        return h

    def replay(args):
        import io
        from cutplace import interface, validio, errors, rowio
        rf.veto_check_class()
        cells = [args["c%d" % i] for i in range(6)]
        rows = []
        k = 0
        for r in range(nrows):
            rows.append(cells[k:k + widths_of_rows[r]])
            k += widths_of_rows[r]
        cid = interface.create_cid_from_string(text)
        out = io.StringIO(newline="")
        accepted = []
        w = validio.Writer(cid, out)
        for ri, row in enumerate(rows):
            try:
                if batches and ri > 0:
                    w.write_rows([row])
                else:
                    w.write_row(row)
                accepted.append(row)
            except errors.DataError:
                pass
        w.close()
        ok, _, detail = go(cells)
        back = list(rowio.delimited_rows(io.StringIO(out.getvalue(), newline=""), cid.data_format))
        bad = (not ok) or back != accepted
        return bad, "rows %r -> accepted %r, file holds %r; %s" % (rows, accepted, back, detail), "writer-delimited"

    return mk, replay


def make_close(nrows):
    """target given as a path: the file the writer opened must be closed by Writer.close() even when an end-of-data
    check fails (otherwise buffered accepted rows never reach the file)"""
    text = ("d,format,delimited\nf,k,,,,Choice,\"a,b\"\nc,dc,DistinctCount,k < 2\n")

    def go(keys):
        import io as real_io
        from cutplace import validio, errors, rowio, _compat

        for k in keys[:nrows]:
            assume(len(k) == 1 and 97 <= ord(k) <= 99)
        opened = []

        class FakeIo:
            def __getattr__(self, name):
                return getattr(real_io, name)

            def open(self, path, mode="r", **kw):
                st = WriteStream()
                opened.append(st)
                return st

        handed = []

        class Recorder:
            def writerow(self, row):
                handed.append(list(row))

        cid = rf.build_cid(text)
        distinct = {}
        raised = False
        with patched(rf.smart_repr(), (rowio, "io", FakeIo()), (_compat, "csv_writer", lambda stream, **kw: Recorder())):
            writer = validio.Writer(cid, "out.csv")
            for k in keys[:nrows]:
                try:
                    writer.write_row([k])
                    distinct[k] = True
                except errors.DataError:
                    pass
            try:
                writer.close()
            except errors.CheckError:
                raised = True
        exp_raise = not (len(distinct) < 2)
        ok = raised == exp_raise and len(opened) == 1 and opened[0].closed
        return ok, ("endfail" if exp_raise else "endok")

    def mk(mode):
        def h(k0: str, k1: str, k2: str):
            return go([k0, k1, k2])

        return h

    def replay(args):
        import os
        import shutil
        import tempfile
        from cutplace import interface, validio, errors
        d = tempfile.mkdtemp()
        try:
            p = os.path.join(d, "out.csv")
            cid = interface.create_cid_from_string(text)
            w = validio.Writer(cid, p)
            accepted = []
            for k in [args["k0"], args["k1"], args["k2"]][:nrows]:
                try:
                    w.write_row([k])
                    accepted.append(k)
                except errors.DataError:
                    pass
            try:
                w.close()
            except errors.CheckError:
                pass
            content = open(p, encoding="cp1252").read().split()
            return content != accepted, "accepted rows %r, file holds %r after close()" % (accepted, content), "writer-close"
        finally:
            shutil.rmtree(d)

    return mk, replay


def make_two_checks(nrows, op, limit):
    """two whole-file checks declared in an order that differs from the alphabetical order of their names (IsUnique
    'z_unique' first, DistinctCount 'a_count' second): a row rejected as a duplicate leaves no trace, i.e. close()
    fails iff the rows actually written break the count rule (= what reading the output back would say)"""
    text = ("d,format,delimited\nf,k,,,,Choice,\"a,b\"\nf,v,,,,Choice,\"x,y\"\n"
            "c,z_unique,IsUnique,k\nc,a_count,DistinctCount,v %s %d\n" % (op, limit))

    def go(cells):
        from cutplace import validio, errors, _compat

        rows = [[cells[2 * r], cells[2 * r + 1]] for r in range(nrows)]
        for k, v in rows:
            assume(len(k) == 1 and 97 <= ord(k) <= 99)   # c is no valid key
            assume(len(v) == 1 and 120 <= ord(v) <= 121)
        handed = []

        class Recorder:
            def writerow(self, row):
                handed.append(list(row))

        cid = rf.build_cid(text)
        keys = []
        values = []
        verdict_ok = True
        raised = False
        with patched(rf.smart_repr(), (_compat, "csv_writer", lambda stream, **kw: Recorder())):
            writer = validio.Writer(cid, object())
            for k, v in rows:
                exp = ord(k) != 99
                for s in keys:
                    if s == k:
                        exp = False
                try:
                    writer.write_row([k, v])
                    got = True
                except errors.DataError:
                    got = False
                if got != exp:
                    verdict_ok = False
                if exp:
                    keys.append(k)
                    new = True
                    for s in values:
                        if s == v:
                            new = False
                    if new:
                        values.append(v)
            try:
                writer.close()
            except errors.CheckError:
                raised = True
        n = len(values)
        holds = {"<=": n <= limit, ">=": n >= limit, "==": n == limit, "<": n < limit}[op]
        ok = verdict_ok and len(handed) == len(keys) and raised == (not holds)
        return ok, ("endok" if holds else "endfail"), rows, handed, raised

    def mk(mode):
        def h(c0: str, c1: str, c2: str, c3: str, c4: str, c5: str):
            ok, cls, _, _, _ = go([c0, c1, c2, c3, c4, c5])
            return ok, cls

        return h

    def replay(args):
        import io
        from cutplace import interface, validio, errors
        cells = [args["c%d" % i] for i in range(6)]
        rows = [[cells[2 * r], cells[2 * r + 1]] for r in range(nrows)]
        cid = interface.create_cid_from_string(text)
        out = io.StringIO()
        w = validio.Writer(cid, out)
        for row in rows:
            try:
                w.write_row(row)
            except errors.DataError:
                pass
        close_error = None
        try:
            w.close()
        except errors.CheckError as e:
            close_error = e
        produced = out.getvalue()
        back_error = None
        try:
            validio.validate(interface.create_cid_from_string(text), io.StringIO(produced, newline=""))
        except errors.DataError as e:
            back_error = e
        return (close_error is None) != (back_error is None), \
            "rows %r written under checks (z_unique: IsUnique k; a_count: DistinctCount v %s %d): close() -> %r, reading the " \
            "output %r back -> %r" % (rows, op, limit, close_error, produced, back_error), "writer-whole-file-checks"

    return mk, replay


def make_readback(nrows, delim):
    text = FIXED_CID % (delim, 0)
    sep = SEP[delim]
    reclen = 3 + len(sep)

    def go(textdata):
        from cutplace import validio, errors

        assume(len(textdata) == nrows * reclen)
        rows = []
        for r in range(nrows):
            base = r * reclen
            a = textdata[base:base + 2]
            b = textdata[base + 2:base + 3]
            for i, ch in enumerate(sep):
                assume(ord(textdata[base + 3 + i]) == ord(ch))
            # written form: each region is a cell its field accepts (then padding keeps it accepted)
            for ch in a:
                assume(ord(ch) < 128)
            assume(ord(b[0]) < 128)
            assume(cell_verdict(0, a) and cell_verdict(1, b))
            rows.append([a, b])
        cid = rf.build_cid(text)
        with patched(rf.smart_repr()):
            got = list(validio.rows(cid, Stream(textdata), on_error="yield"))
        if len(got) != nrows:
            return False, "count"
        for g, e in zip(got, rows):
            if isinstance(g, errors.DataError):
                return False, "rejected"
            if len(g) != 2 or len(g[0]) != 2 or len(g[1]) != 1:
                return False, "shape"
            for x, y in zip(g, e):
                for i in range(len(y)):
                    if ord(x[i]) != ord(y[i]):
                        return False, "cell"
        return True, "rows%d" % nrows

    def mk(mode):
        def h(textdata: str):
            return go(textdata)

        return h

    def replay(args):
        import io
        from cutplace import interface, validio
        cid = interface.create_cid_from_string(text)
        t = args["textdata"]
        try:
            got = list(validio.rows(cid, io.StringIO(t, newline=""), on_error="yield"))
        except Exception as e:  # noqa
            return True, "reading written-form text %r raised %s: %s" % (t, type(e).__name__, e), "readback-fixed"
        exp = [[t[r * reclen:r * reclen + 2], t[r * reclen + 2:r * reclen + 3]] for r in range(nrows)]
        return got != exp, "written-form text %r read back as %r, expected %r" % (t, got, exp), "readback-fixed"

    return mk, replay


def native_delimited_roundtrip():
    """concrete: the real csv writer and reader (C code) between Writer and rows(): tables of hostile cell values
    (line breaks of every kind, quotes, delimiters, backslashes, blanks) mixed with rejected rows, under several
    delimited dialects; the output read back under the same CID gives exactly the accepted rows.  Exploration over
    a finite pool, not a solver verdict."""
    import io
    from cutplace import interface, validio, errors
    failures = []
    n = 0
    dialects = {"default": (), "line delimiter lf": ("d,line delimiter,lf",), "line delimiter cr": ("d,line delimiter,cr",),
                "line delimiter crlf": ("d,line delimiter,crlf",), "item delimiter ;": ("d,item delimiter,;",),
                "quote character '": ('d,quote character,"\'"',), "escape character backslash": ("d,escape character,\\",),
                "item delimiter tab": ("d,item delimiter,tab",), "encoding utf-8, header 1": ("d,encoding,utf-8", "d,header,1")}
    values = ["a\rb", "a\nb", "a\r\nb", 'a"b', "a,b", "a;b", "a'b", " a", "a ", "\\", "a\\b", "\t", '"', "'", '""', "a\\\"b",
              "\\n", "x", "\u00e9\u20ac", "a\tb", "a, b", ",", ";", "\r", "\n", "\r\n", "'a'", '"a"', "a\x0bb", "a\x0cb", "a\x1cb",
              "a\x85b", "a\u2028b"]
    for name, extra in dialects.items():
        text = "\n".join(("d,format,delimited",) + extra + ("f,a", "f,b,,X,...3")) + "\n"
        header = 1 if "header 1" in name else 0
        table = [["caption\nwith break", "second caption"]] if header else []
        expected = []  # (header rows are written as they are and skipped when reading)
        for i, v in enumerate(values):
            for row in ([v, ""], ["x", v], [v, "toolong"], [v, v], [""  , v]):
                table.append(row)
                if row[0] != "" and len(row[1]) <= 3:
                    expected.append(row)
        n += 1
        try:
            cid = interface.create_cid_from_string(text)
            out = io.StringIO()
            writer = validio.Writer(cid, out)
            verdicts_ok = True
            for k, row in enumerate(table):
                exp_ok = k < header or (row[0] != "" and len(row[1]) <= 3)
                try:
                    writer.write_row(row)
                    got_ok = True
                except errors.DataError:
                    got_ok = False
                if got_ok != exp_ok:
                    verdicts_ok = False
                    failures.append(dict(key="writer-delimited-roundtrip", what="dialect %s: write_row(%r) accepted=%s expected %s" % (
                        name, row, got_ok, exp_ok), args=dict(dialect=name, row=row)))
                    break
            writer.close()
            if not verdicts_ok:
                continue
            back = list(validio.rows(interface.create_cid_from_string(text), io.StringIO(out.getvalue(), newline=""), on_error="yield"))
            if back == expected:
                # the same through the file system: Writer on a path, read back by path
                import os
                import tempfile
                tmpd = tempfile.mkdtemp(prefix="c14rt")
                try:
                    fpath = os.path.join(tmpd, "out.csv")
                    cid2 = interface.create_cid_from_string(text)
                    def encodable(row):
                        try:
                            "".join(row).encode(cid2.data_format.encoding)
                            return True
                        except UnicodeEncodeError:
                            return False

                    storable = [row for row in expected if encodable(row)]
                    with validio.Writer(cid2, fpath) as fw:
                        for row in table[:header] + storable:
                            fw.write_row(row)
                    back = list(validio.rows(interface.create_cid_from_string(text), fpath, on_error="yield"))
                    if back == storable:
                        back = expected
                finally:
                    import shutil
                    shutil.rmtree(tmpd, ignore_errors=True)
                if back != expected:
                    name = name + " (written to and read from a path)"
            if back != expected:
                diff = next((i for i, (a, b) in enumerate(zip(back, expected)) if a != b), min(len(back), len(expected)))
                failures.append(dict(key="writer-delimited-roundtrip", what="dialect %s: output read back differs at row %d: got %r, "
                                     "written %r (%d rows read, %d written)" % (name, diff + 1, back[diff] if diff < len(back) else None,
                                                                               expected[diff] if diff < len(expected) else None,
                                                                               len(back), len(expected)), args=dict(dialect=name)))
        except Exception as e:  # noqa
            failures.append(dict(key="writer-delimited-roundtrip", what="dialect %s raised %s: %s" % (name, type(e).__name__, e),
                                 args=dict(dialect=name)))
    # rows whose items are all empty (under a CID that allows it) are rows like any other; a row object the caller
    # re-uses and changes in place is validated again every time it is written
    for fmt_text, empties in (("d,format,delimited\nf,a,,X,...1\nf,b,,X\n", [["x", "y"], ["", ""], ["z", ""], ["", ""]]),
                              ("d,format,delimited\nf,a,,X,...1\n", [["x"], [""], ["y"]])):
        n += 1
        try:
            out = io.StringIO()
            with validio.Writer(interface.create_cid_from_string(fmt_text), out) as w:
                for row in empties:
                    w.write_row(row)
            back = list(validio.rows(interface.create_cid_from_string(fmt_text), io.StringIO(out.getvalue(), newline=""), on_error="yield"))
            if back != empties:
                failures.append(dict(key="writer-delimited-roundtrip", what="rows %r (all fields may be empty) written as %r read back as %r" % (
                    empties, out.getvalue(), back), args=dict(rows=empties)))
        except Exception as e:  # noqa
            failures.append(dict(key="writer-delimited-roundtrip", what="rows %r raised %s: %s" % (empties, type(e).__name__, e), args=dict(rows=empties)))
    for fmt_text in ("d,format,delimited\nf,a,,,1...2\nf,b,,X,...1\n", FIXED_CID % ("lf", 0)):
        n += 1
        try:
            out = io.StringIO()
            w = validio.Writer(interface.create_cid_from_string(fmt_text), out)
            buffer = ["ab", "c"]
            verdicts = []
            for first, second in (("ab", "c"), ("toolong", "c"), ("ab", "c"), ("", "c"), ("ab", "toolong"), ("cd", "")):
                buffer[0], buffer[1] = first, second  # the same list object, changed in place
                try:
                    w.write_row(buffer)
                    verdicts.append(True)
                except errors.DataError:
                    verdicts.append(False)
            w.close()
            if verdicts != [True, False, True, False, False, True]:
                failures.append(dict(key="writer-reused-row-object", what="one list object changed in place and written six times under %r: accepted %r, "
                                     "expected [True, False, True, False, False, True]; output %r" % (fmt_text, verdicts, out.getvalue()), args={}))
        except Exception as e:  # noqa
            failures.append(dict(key="writer-reused-row-object", what="re-used row object under %r raised %s: %s" % (fmt_text, type(e).__name__, e), args={}))
    # fixed format through the file system: Writer on a path, read back by path and by stream, every line delimiter
    import os
    import shutil
    import tempfile
    tmpd = tempfile.mkdtemp(prefix="c14fixed")
    try:
        for delim in ("lf", "cr", "crlf", "any", "none"):
            for header in (0, 1):
                n += 1
                text = FIXED_CID % (delim, header)
                table = [["hd", "r"]] * header + [["ab", "c"], ["toolong", "x"], ["d", ""], ["", "y"], ["e f", "g"], ["h\n", "i"]]
                fpath = os.path.join(tmpd, "out_%s_%d.txt" % (delim, header))
                try:
                    accepted = []
                    with validio.Writer(interface.create_cid_from_string(text), fpath) as fw:
                        for k, row in enumerate(table):
                            try:
                                fw.write_row(row)
                                if k >= header:
                                    accepted.append(row)
                            except errors.DataError:
                                pass
                    with open(fpath, "r", newline="", encoding="cp1252") as f:
                        content = f.read()
                    want = [[a.ljust(2), b.ljust(1)] for a, b in accepted]
                    by_path = list(validio.rows(interface.create_cid_from_string(text), fpath, on_error="yield"))
                    by_stream = list(validio.rows(interface.create_cid_from_string(text), io.StringIO(content, newline=""), on_error="yield"))
                    strip = lambda rows: [[c.rstrip(" ") for c in r] if isinstance(r, list) else r for r in rows]  # noqa
                    if strip(by_path) != strip(want) or strip(by_stream) != strip(want):
                        failures.append(dict(key="writer-fixed-roundtrip", what="fixed, line delimiter %s, header %d: rows %r written to a path "
                                             "(file holds %r) read back by path as %r, by stream as %r" % (delim, header, accepted, content, by_path, by_stream),
                                             args=dict(delimiter=delim, header=header)))
                except Exception as e:  # noqa
                    failures.append(dict(key="writer-fixed-roundtrip", what="fixed, line delimiter %s, header %d raised %s: %s" % (
                        delim, header, type(e).__name__, e), args=dict(delimiter=delim, header=header)))
    finally:
        shutil.rmtree(tmpd, ignore_errors=True)
    return dict(count=n, failures=failures, samples=[])


def build(tier, seed):
    q = []
    OK, BAD = ("ab", "c"), ("toolong", "")
    fixed = [(1, "lf", (2,), {}), (2, "none", (2, 2), {0: OK}), (2, "lf", (2, 2), {1: OK}), (2, "crlf", (2, 2), {0: BAD}), (2, "cr", (2, 2), {0: OK}),
             (2, "lf", (1, 2), {1: OK}), (2, "lf", (3, 2), {1: OK}), (3, "lf", (2, 2, 2), {0: OK, 1: BAD})]
    if tier == "thorough":
        fixed += [(2, "crlf", (2, 1), {}), (3, "lf", (2, 2, 2), {1: BAD, 2: OK}), (3, "cr", (2, 2, 2), {0: OK, 2: OK}),
                  (2, "cr", (2, 2), {1: BAD})]
    for nrows, delim, widths, conc in fixed:
        mk, rp = make_fixed_write(nrows, delim, widths, conc)
        if not conc and nrows == 1:
            mk2, _ = make_fixed_write(nrows, delim, widths, conc, encodable_below=128)
            rp2 = make_encoding_replay(delim)
            q.append(Query("C14/fixed-write/rows=1/%s/target-encodes-ascii-only" % delim, "writer-fixed-encoding", mk2,
                           "as above with cells over Latin-1 and a target stream that raises UnicodeEncodeError for "
                           "characters >= 128 (all-or-nothing per write call): an unencodable row is rejected and nothing "
                           "of it is emitted", budget_s=900, per_path_timeout=120, replay=rp2, functions=FUNCS,
                           stubs=("S-STREAM with encoding fault", "S-FMT")))
        q.append(Query("C14/fixed-write/rows=%d/%s/w=%s%s" % (nrows, delim, ",".join(map(str, widths)),
                                                              "/concrete=%s" % ",".join(map(str, sorted(conc))) if conc else ""), "writer-fixed", mk,
                       "fixed CID (widths 2,1; second field may be empty), %d rows with %r items, cells symbolic (len<=width+1), "
                       "header 0..1, line delimiter %s; ASCII cells" % (nrows, widths, delim), budget_s=900 if tier == "quick" else 3000,
                       per_path_timeout=120, replay=rp, functions=FUNCS, stubs=("S-STREAM (recording write)", "S-FMT")))
    delimited = [(2, (2, 2), False, 0, False), (2, (2, 2), True, 0, False), (3, (2, 1, 2), False, 0, False),
                 (3, (2, 2, 2), False, 1, True), (2, (2, 2), False, 1, False)]
    if tier == "thorough":
        delimited += [(3, (2, 2, 2), True, 0, False), (3, (3, 2, 1), False, 0, False), (3, (2, 2, 2), True, 1, True)]
    for nrows, widths, unique, header, batches in delimited:
        mk, rp = make_delimited_write(nrows, widths, unique, header, batches)
        q.append(Query("C14/delimited-write/rows=%d/w=%s%s%s%s" % (nrows, ",".join(map(str, widths)), "/unique" if unique else "",
                                                              "/header=%d" % header if header else "", "/write_rows" if batches else ""),
                       "writer-delimited", mk,
                       "delimited CID (Text 1-2 chars; Text <=1 char, may be empty)%s, %d rows with %r items, cells symbolic "
                       "(len<=2)" % (", IsUnique on the first field (keys a/b)" if unique else "", nrows, widths),
                       budget_s=900 if tier == "quick" else 3000, per_path_timeout=120, replay=rp, functions=FUNCS,
                       stubs=("S-CSVW _compat.csv_writer -> recorder", "S-FMT")))
    mk, rp = make_close(3)
    q.append(Query("C14/close/path-target", "writer-close", mk,
                   "delimited CID with DistinctCount k < 2, target given as a path, 3 rows with symbolic keys from {a,b,c}: "
                   "the opened file is closed by close() whether or not the end-of-data check fails", budget_s=600,
                   expect=("endok", "endfail"), replay=rp, functions=FUNCS,
                   stubs=("rowio.io.open -> recording stream", "S-CSVW", "S-FMT")))
    for op, limit in ((("<=", 1), (">=", 2)) if tier == "quick" else (("<=", 1), (">=", 2), ("==", 1), ("<", 2))):
        mk, rp = make_two_checks(3, op, limit)
        q.append(Query("C14/two-checks/rows=3/count %s %d" % (op, limit), "writer-two-checks", mk,
                       "delimited CID with IsUnique (declared first, name z_unique) and DistinctCount v %s %d (declared second, "
                       "name a_count); 3 rows, key from {a,b,c}, value from {x,y}, all symbolic: duplicates are rejected without "
                       "a trace, close() fails iff the written rows break the count rule" % (op, limit), budget_s=600,
                       expect=("endok", "endfail"), replay=rp, functions=FUNCS, stubs=("S-CSVW", "S-FMT")))
    for nrows, delim in ((1, "lf"), (2, "lf"), (1, "crlf")) + (((2, "crlf"), (2, "cr"), (3, "lf")) if tier == "thorough" else ()):
        mk, rp = make_readback(nrows, delim)
        q.append(Query("C14/readback/rows=%d/%s" % (nrows, delim), "readback", mk,
                       "every text in written form (%d records of 3 characters + %s, regions accepted by their fields)" % (
                           nrows, delim), budget_s=900 if tier == "quick" else 3000, per_path_timeout=120, replay=rp,
                       functions=FUNCS, stubs=("S-STREAM", "S-FMT")))
    return dict(queries=q, warm=("strip",), native=native_delimited_roundtrip,
                assumptions=["(w) and (r) meet at the predicate 'written form'; (r) quantifies over every text of that form, "
                             "not only those a writer produced", "header rows are written unvalidated; malformed header "
                             "rows are outside the claim"],
                outside_claim=["the bytes the csv module produces (C12) beyond the native round-trip pool; leading blanks under "
                               "'skip initial space' (dropped by that dialect by definition)", "encoding errors of the target stream",
                               "more than 3 rows"],
                exhaustive=False)


def replay_case(case):
    for tier in ("quick", "thorough"):
        for q in build(tier, 0)["queries"]:
            if q.qid == case.get("query"):
                rep, detail, _ = q.replay(case["args"])
                return rep, detail
    return False, "no such query"
