"""C01  Range descriptions accept exactly the values they describe.  (DESIGN.md section 6, C01)

H1a  Range.validate on a directly constructed state (arbitrary disjoint items, all integers symbolic)
H1b  Range.__init__ on token sequences (S-TOK, S-INT): items, limits, membership -- all numbers symbolic
H1c  DecimalRange (real constructor, concrete descriptions) x symbolic decimal probe value
H1d  front end: every spelling through the *real* tokenizer (native) + the bounded sweep of all 1-2 item
     descriptions with limits in {-2..2, none}, each built for real and decided for ALL integers v
"""
import decimal
import itertools
import random
from fractions import Fraction

from vlib.engine import Query, assume, is_native
from vlib.envstubs import patched, quiet_repr, IntStub, tok, END, COMMA, HYPHEN, COLON, NUMBER, NAME, STRING

FUNCS = ("cutplace.ranges.Range.__init__", "cutplace.ranges.Range.validate", "cutplace.ranges.Range._items_overlap",
         "cutplace.ranges.Range._item_contains", "cutplace.ranges.code_for_number_token",
         "cutplace.ranges.code_for_symbolic_token", "cutplace.ranges.code_for_string_token",
         "cutplace.ranges.DecimalRange.__init__", "cutplace.ranges.DecimalRange.validate",
         "cutplace.ranges._tokenizable_description", "cutplace._tools.tokenize_without_space")

NAMES = {"cr": 13, "ff": 12, "lf": 10, "tab": 9, "vt": 11}


# ---------------------------------------------------------------- shared helpers (RANGE family)
def member(items, v):
    """reference membership: items = [(lo|None, hi|None)]"""
    for lo, hi in items:
        if (lo is None or v >= lo) and (hi is None or v <= hi):
            return True
    return False


def assume_wellformed_disjoint(items):
    for lo, hi in items:
        if lo is not None and hi is not None:
            assume(lo <= hi)
    for i in range(len(items)):
        for j in range(i + 1, len(items)):
            (alo, ahi), (blo, bhi) = items[i], items[j]
            a_before_b = ahi is not None and blo is not None and ahi < blo
            b_before_a = bhi is not None and alo is not None and bhi < alo
            assume(a_before_b or b_before_a)


def direct_range(items):
    """A Range object in an arbitrary state (representation invariant: no item is (None, None))."""
    from cutplace import ranges

    r = ranges.Range.__new__(ranges.Range)
    r._description = "<direct>"
    r._items = list(items)
    r._lower_limit = None
    r._upper_limit = None
    return r


def accepts(rng, v):
    from cutplace import errors

    try:
        rng.validate("x", v)
        return True
    except errors.RangeValueError:
        return False


def describe(items):
    """items -> a description text (for replay through the public constructor)"""
    parts = []
    for lo, hi in items:
        if lo is not None and lo == hi:
            parts.append("%d" % lo)
        else:
            parts.append(("" if lo is None else "%d" % lo) + "..." + ("" if hi is None else "%d" % hi))
    return ", ".join(parts)


# ---------------------------------------------------------------- H1a
def _kinds_items(kinds, nums):
    items = []
    k = 0
    for kind in kinds:
        if kind == "c":
            items.append((nums[k], nums[k + 1]))
        elif kind == "lo":
            items.append((None, nums[k + 1]))
        else:
            items.append((nums[k], None))
        k += 2
    return items


def make_h1a(kinds):
    def make(mode):
        def h(a0: int, b0: int, a1: int, b1: int, a2: int, b2: int, a3: int, b3: int, v: int):
            items = _kinds_items(kinds, (a0, b0, a1, b1, a2, b2, a3, b3))
            assume_wellformed_disjoint(items)
            with patched(quiet_repr()):
                got = accepts(direct_range(items), v)
            exp = member(items, v)
            return got == exp, ("in" if exp else "out")

        return h

    def replay(args):
        from cutplace import ranges

        nums = [args[k] for k in ("a0", "b0", "a1", "b1", "a2", "b2", "a3", "b3")]
        items = _kinds_items(kinds, nums)
        text = describe(items)
        r = ranges.Range(text)
        got = accepts(r, args["v"])
        exp = member(items, args["v"])
        return got != exp, "Range(%r).validate(%d): accepted=%s, expected=%s" % (text, args["v"], got, exp), \
            "range-validate"

    return make, replay


def h1a_symbolic_shape():
    """n <= 2 with n and the kinds symbolic in one query"""

    def make(mode):
        def h(n: int, k0: int, k1: int, a0: int, b0: int, a1: int, b1: int, v: int):
            assume(0 <= n <= 2 and 0 <= k0 <= 2 and 0 <= k1 <= 2)
            kinds = [("c", "lo", "hi")[k0], ("c", "lo", "hi")[k1]][:n]
            items = _kinds_items(kinds, (a0, b0, a1, b1))
            assume_wellformed_disjoint(items)
            with patched(quiet_repr()):
                got = accepts(direct_range(items), v)
            exp = member(items, v)
            return got == exp, ("in" if exp else "out")

        return h

    def replay(args):
        from cutplace import ranges

        kinds = [("c", "lo", "hi")[args["k0"]], ("c", "lo", "hi")[args["k1"]]][:args["n"]]
        items = _kinds_items(kinds, (args["a0"], args["b0"], args["a1"], args["b1"]))
        text = describe(items)
        r = ranges.Range(text)
        got = accepts(r, args["v"])
        exp = member(items, args["v"])
        return got != exp, "Range(%r).validate(%d): accepted=%s, expected=%s" % (text, args["v"], got, exp), \
            "range-validate"

    return make, replay


# ---------------------------------------------------------------- H1b
# limit spec: ("num", neg) | ("name", text) | ("str",)     item spec: (lower spec | None, upper spec | None, single)
LIMIT_KINDS = [("num", False), ("num", True), ("name", "tab"), ("name", "CR"), ("str",)]


def _shape_tokens_and_items(shape, nums, strs):
    """-> (tokens, int_table, expected items).  Consumes one number / string variable per limit."""
    tokens = []
    table = {}
    items = []
    ni = si = 0
    for idx, (lo_spec, hi_spec, single) in enumerate(shape):
        if idx:
            tokens.append(COMMA)
        vals = []
        for pos, spec in enumerate((lo_spec, hi_spec)):
            if pos == 1 and not single:
                tokens.append(COLON)
            if spec is None or (pos == 1 and single):
                vals.append(None)
                continue
            if spec[0] == "num":
                n = nums[ni]
                assume(n >= 0)  # the tokenizer only yields unsigned number literals
                name = "N%d" % ni
                ni += 1
                table[name] = n
                if spec[1]:
                    tokens.append(HYPHEN)
                tokens.append(NUMBER(name))
                vals.append(-n if spec[1] else n)
            elif spec[0] == "name":
                tokens.append(NAME(spec[1]))
                vals.append(NAMES[spec[1].lower()])
            else:
                t = strs[si]
                si += 1
                assume(len(t) == 3)
                assume(ord(t[0]) == 34 and ord(t[2]) == 34)
                assume(ord(t[1]) != 92)  # a lone backslash is not a complete STRING token
                tokens.append(STRING(t))
                vals.append(ord(t[1]))
        if single:
            items.append((vals[0], vals[0]))
        else:
            items.append((vals[0], vals[1]))
    tokens.append(END)
    return tokens, table, items


def shape_text(shape, nums=None, chars=None):
    """concrete spelling of a shape (replay / H1d)"""
    nums = list(nums or [])
    chars = list(chars or [])
    out = []
    for lo_spec, hi_spec, single in shape:
        parts = []
        for pos, spec in enumerate((lo_spec, hi_spec)):
            if spec is None or (pos == 1 and single):
                parts.append("")
            elif spec[0] == "num":
                n = nums.pop(0)
                parts.append(("-" if spec[1] else "") + "%d" % n)
            elif spec[0] == "name":
                parts.append(spec[1])
            else:
                c = chars.pop(0)
                parts.append('"%s"' % c)
        out.append(parts[0] if single else parts[0] + "..." + parts[1])
    return ", ".join(out)


def expected_limits(items):
    lower = None if any(lo is None for lo, _ in items) else min(lo for lo, _ in items)
    upper = None if any(hi is None for _, hi in items) else max(hi for _, hi in items)
    return lower, upper


def make_h1b(shape):
    def run(nums, strs, v, use_stub):
        from cutplace import ranges, _tools, errors

        tokens, table, items = _shape_tokens_and_items(shape, nums, strs)
        assume_wellformed_disjoint(items)
        stub = IntStub(table=table)
        with patched(quiet_repr(), (_tools, "tokenize_without_space", lambda text: iter(tokens)), (ranges, "int", stub)):
            try:
                r = ranges.Range("stub")
            except errors.InterfaceError:
                return False, "rejected"
            if r.items != items:
                return False, "items"
            lo, hi = expected_limits(items)
            if r.lower_limit != lo or r.upper_limit != hi:
                return False, "limits"
            got = accepts(r, v)
        exp = member(items, v)
        return got == exp, ("in" if exp else "out")

    def make(mode):
        def h(n0: int, n1: int, n2: int, n3: int, n4: int, n5: int, n6: int, n7: int, t0: str, t1: str, t2: str,
              t3: str, v: int):
            return run([n0, n1, n2, n3, n4, n5, n6, n7], [t0, t1, t2, t3], v, True)

        return h

    def replay(args):
        from cutplace import ranges, errors

        nums = [args["n%d" % i] for i in range(8)]
        strs = [args["t%d" % i] for i in range(4)]
        text = shape_text(shape, nums, [s[1] if len(s) == 3 else "?" for s in strs])
        _, _, items = _shape_tokens_and_items(shape, nums, strs)
        try:
            r = ranges.Range(text)
        except errors.InterfaceError as e:
            return True, "Range(%r) rejected: %s" % (text, e), "range-constructor"
        lo, hi = expected_limits(items)
        if r.items != items or r.lower_limit != lo or r.upper_limit != hi:
            return True, "Range(%r): items=%r limits=%r,%r expected %r %r,%r" % (
                text, r.items, r.lower_limit, r.upper_limit, items, lo, hi), "range-constructor"
        got = accepts(r, args["v"])
        exp = member(items, args["v"])
        return got != exp, "Range(%r).validate(%d): accepted=%s expected=%s" % (text, args["v"], got, exp), \
            "range-constructor"

    return make, replay


MALFORMED = {
    "two-numbers": [NUMBER("N0"), NUMBER("N1"), END],
    "three-limits": [NUMBER("N0"), COLON, NUMBER("N1"), COLON, NUMBER("N2"), END],
    "lone-ellipsis": [COLON, END],
    "lone-ellipsis-2nd": [NUMBER("N0"), COMMA, COLON, END],
    "trailing-hyphen": [NUMBER("N0"), COLON, HYPHEN, END],
    "hyphen-name": [HYPHEN, NAME("tab"), END],
    "hyphen-ellipsis": [HYPHEN, COLON, NUMBER("N0"), END],
    "unknown-name": [NAME("abc"), END],
    "op": [NUMBER("N0"), tok(54, "+"), NUMBER("N1"), END],
}


def make_malformed(tokens):
    def make(mode):
        def h(n0: int, n1: int, n2: int):
            from cutplace import ranges, _tools, errors

            assume(n0 >= 0 and n1 >= 0 and n2 >= 0)
            stub = IntStub(table={"N0": n0, "N1": n1, "N2": n2})
            with patched(quiet_repr(), (_tools, "tokenize_without_space", lambda text: iter(tokens)),
                         (ranges, "int", stub)):
                try:
                    ranges.Range("stub")
                except errors.InterfaceError:
                    return True, "rejected"
            return False, "accepted"

        return h

    return make


# ---------------------------------------------------------------- H1c decimal ranges
DECIMAL_DESCRIPTIONS = [
    "0...299.99", "-1.5:20.25, 30:", "...-0.001", "1e2...", "-7, 0.5...0.75, 100.125:", "0.1", "-2.50...-1.25, 3",
    ":0", "12.5…", "-0.5:0.5",
]


def make_h1c(description, scale):
    def make(mode):
        from cutplace import ranges

        rng = ranges.DecimalRange(description)
        items = [(None if lo is None else Fraction(lo), None if hi is None else Fraction(hi)) for lo, hi in rng.items]
        den = 10 ** scale

        def h(k: int):
            assume(-10 ** 6 < k < 10 ** 6)
            x = decimal.Decimal(k).scaleb(-scale)
            with patched(quiet_repr()):
                got = accepts(rng, x)
            exp = False
            for lo, hi in items:
                ge = lo is None or k * lo.denominator >= lo.numerator * den
                le = hi is None or k * hi.denominator <= hi.numerator * den
                if ge and le:
                    exp = True
            return got == exp, ("in" if exp else "out")

        return h

    return make


def _decimal_in_reachable(description, scale):
    """is some k/10^scale inside the described range? (decides whether outcome class 'in' must be seen)"""
    from cutplace import ranges
    try:
        rng = ranges.DecimalRange(description)
    except Exception:  # noqa
        return True
    for k in range(-20000, 20001):
        x = decimal.Decimal(k).scaleb(-scale)
        for lo, hi in rng.items:
            if (lo is None or x >= lo) and (hi is None or x <= hi):
                return True
    return False


def native_decimal_checks():
    """concrete (no quantifier): items / limits of decimal descriptions through the real constructor"""
    from cutplace import ranges, errors
    D = decimal.Decimal
    cases = [
        ("0...299.99", [(D("0"), D("299.99"))], D("0"), D("299.99")),
        ("-1.5:20.25, 30:", [(D("-1.5"), D("20.25")), (D("30"), None)], D("-1.5"), None),
        ("...-0.001", [(None, D("-0.001"))], None, D("-0.001")),
        ("-7, 0.5…0.75, 100.125:", [(D("-7"), D("-7")), (D("0.5"), D("0.75")), (D("100.125"), None)], D("-7"), None),
        ("1e2...", [(D("1e2"), None)], D("100"), None),
        (":0, 5", [(None, D("0")), (D("5"), D("5"))], None, D("5")),
    ]
    failures = []
    n = 0
    # values and limits with more significant digits than the decimal context's default precision (28)
    long_cases = [("", "9999999999999999999.999999999999", True), ("", "-9999999999999999999.999999999999", True),
                  ("0...1", "1.0000000000000000000000000001", False), ("0...1", "0.9999999999999999999999999999999", True),
                  ("0...1", "-0.0000000000000000000000000000001", False),
                  ("123456789012345678901234567890...", "123456789012345678901234567889.9", False),
                  ("123456789012345678901234567890...", "123456789012345678901234567890", True)]
    for desc, value, exp in long_cases:
        n += 1
        try:
            r = ranges.DecimalRange(desc, ranges.DEFAULT_DECIMAL_RANGE_TEXT)
            try:
                r.validate("x", D(value))
                got = True
            except errors.RangeValueError:
                got = False
            if got != exp:
                failures.append(dict(key="decimal-range-long-digits", what="DecimalRange(%r).validate(%s): accepted=%s expected %s" % (
                    desc or "<default>", value, got, exp), args=dict(text=desc, value=value)))
        except Exception as e:  # noqa
            failures.append(dict(key="decimal-range-long-digits", what="DecimalRange(%r).validate(%s) raised %s: %s" % (
                desc, value, type(e).__name__, e), args=dict(text=desc, value=value)))
    for text, items, lo, hi in cases:
        n += 1
        try:
            r = ranges.DecimalRange(text)
            ok = r.items == items and r.lower_limit == lo and r.upper_limit == hi
            what = "DecimalRange(%r): items=%r limits=%r,%r expected %r %r,%r" % (
                text, r.items, r.lower_limit, r.upper_limit, items, lo, hi)
        except Exception as e:  # noqa
            ok = False
            what = "DecimalRange(%r) raised %s: %s" % (text, type(e).__name__, e)
        if not ok:
            failures.append(dict(key="decimal-range-constructor", what=what, args=dict(text=text)))
    return n, failures


# ---------------------------------------------------------------- H1d front end
def spellings(value):
    """every documented spelling of an integer limit"""
    out = ["%d" % value]
    if value >= 0:
        out.append("0x%x" % value)
        out.append("0X%X" % value)
    else:
        out.append("-0x%x" % -value)
        out.append("- %d" % -value)
    for name, code in NAMES.items():
        if code == value:
            out += [name, name.upper(), name.capitalize()]
    if 32 < value < 127 and value not in (34, 39, 92):
        out += ['"%s"' % chr(value), "'%s'" % chr(value)]
    if value == 34:
        out += ["'\"'", '"\\""']
    if value == 39:
        out += ['"\'"', "'\\''"]
    if value == 32:
        out += ['" "', "' '"]
    if value == 92:
        out += ['"\\\\"']
    if value in (9, 10, 13):
        out.append('"%s"' % {9: "\\t", 10: "\\n", 13: "\\r"}[value])
    if 0 <= value < 256:
        out.append('"\\x%02x"' % value)
    if value == 8230:
        out.append('"…"')
    return out


def native_frontend(tier, seed):
    """stub validation: real tokenizer + real constructor on every spelling (concrete values)"""
    from cutplace import ranges
    rnd = random.Random(seed)
    seps = ["...", ":", "…", " ... ", " : ", " … "]
    values = [0, 1, 9, 10, 13, 12, 11, 48, 65, 97, 122, 255, 8230, -1, -5, 1000, 2 ** 31, -(2 ** 31),
              # characters that mean something in the syntax, as quoted limits
              32, 34, 35, 39, 40, 44, 45, 46, 58, 92]
    failures = []
    n = 0
    samples = []

    def check(text, items):
        nonlocal n
        n += 1
        lo, hi = expected_limits(items)
        try:
            r = ranges.Range(text)
            ok = r.items == items and r.lower_limit == lo and r.upper_limit == hi
            what = "Range(%r): items=%r limits=%r,%r expected %r %r,%r" % (text, r.items, r.lower_limit, r.upper_limit,
                                                                       items, lo, hi)
        except Exception as e:  # noqa
            ok = False
            what = "Range(%r) raised %s: %s (expected items %r)" % (text, type(e).__name__, e, items)
        if not ok:
            failures.append(dict(key="range-frontend", what=what, args=dict(text=text)))
        elif len(samples) < 2:
            samples.append(dict(query="native/frontend", text=text, items=[list(i) for i in items]))

    # single limits in every spelling, every item form, every separator
    for v in values:
        for sp in spellings(v):
            check(sp, [(v, v)])
            check(" " + sp + " ", [(v, v)])
            for sep in seps:
                check(sp + sep, [(v, None)])
                check(sep + sp, [(None, v)])
    # characters of the syntax as the lower / upper limit of a two-sided item, every spelling x every separator
    # (an escaped quote followed by an ellipsis and another quoted limit, a quoted colon before a colon, ...)
    for v in (32, 34, 35, 39, 40, 44, 45, 46, 58, 92):
        for sp in spellings(v):
            for sep in seps:
                for hi_text, hi in (("'z'", 122), ('"~"', 126), ("200", 200)):
                    check(sp + sep + hi_text, [(v, hi)])
                    check(sp + sep + hi_text + ", " + "300" + sep + "'\u20ac'", [(v, hi), (300, 8364)])
                for lo_text, lo in (("'!'", 33), ("1", 1)):
                    if lo <= v:
                        check(lo_text + sep + sp, [(lo, v)])
    pairs = [(a, b) for a in values for b in values if a <= b]
    if tier == "quick":
        pairs = rnd.sample(pairs, 40)
    for a, b in pairs:
        for sa in spellings(a):
            for sb in spellings(b):
                sep = rnd.choice(seps)
                check(sa + sep + sb, [(a, b)])
    # multi item descriptions (2-4 items), increasing and decreasing order
    pool = [(-20, -10), (-5, -5), (0, 3), (9, 13), (48, 57), (65, 90), (97, 122), (1000, None), (None, -100)]
    combos = []
    for k in (2, 3, 4):
        for combo in itertools.combinations(pool, k):
            combos.append(combo)
    if tier == "quick":
        combos = rnd.sample(combos, 60)
    for combo in combos:
        for order in (list(combo), list(reversed(combo))):
            texts = []
            for lo, hi in order:
                sep = rnd.choice(seps)
                if lo is not None and lo == hi:
                    texts.append(rnd.choice(spellings(lo)))
                else:
                    texts.append(("" if lo is None else rnd.choice(spellings(lo))) + sep +
                                 ("" if hi is None else rnd.choice(spellings(hi))))
            check(rnd.choice([", ", ",", " , "]).join(texts), order)
    return n, failures, samples


def sweep_descriptions():
    """all 1-2 item descriptions with limits in {-2..2, none} (non-overlapping, well-formed)"""
    lim = [-2, -1, 0, 1, 2]
    single = []
    for a in lim:
        single.append((a, a))
        single.append((a, None))
        single.append((None, a))
        for b in lim:
            if a < b:
                single.append((a, b))
    out = [[i] for i in single]
    for a in single:
        for b in single:
            (alo, ahi), (blo, bhi) = a, b
            a_before_b = ahi is not None and blo is not None and ahi < blo
            b_before_a = bhi is not None and alo is not None and bhi < alo
            if a_before_b or b_before_a:
                out.append([a, b])
    return out


def make_sweep(descs):
    def make(mode):
        from cutplace import ranges

        built = [(items, ranges.Range(describe(items))) for items in descs]

        def h(v: int):
            ok = True
            with patched(quiet_repr()):
                for items, rng in built:
                    if accepts(rng, v) != member(items, v):
                        ok = False
            return ok, ("low" if v < -2 else ("high" if v > 2 else "mid"))

        return h

    def replay(args):
        from cutplace import ranges

        for items in descs:
            text = describe(items)
            r = ranges.Range(text)
            got = accepts(r, args["v"])
            exp = member(items, args["v"])
            if got != exp:
                return True, "Range(%r).validate(%d): accepted=%s expected=%s" % (text, args["v"], got, exp), \
                    "range-validate"
        return False, "all agree", "range-validate"

    return make, replay


# ---------------------------------------------------------------- plan
def all_item_specs():
    specs = []
    for lo in LIMIT_KINDS:
        specs.append((lo, None, True))  # x
        specs.append((lo, None, False))  # x...
        specs.append((None, lo, False))  # ...y
        for hi in LIMIT_KINDS:
            specs.append((lo, hi, False))  # x...y
    return specs


def _feasible(shape):
    """Is there any assignment making the items well-formed and disjoint? (randomised native search; shapes such
    as 'CR, N...CR' can never be, and would only produce vacuous queries)"""
    from vlib import engine
    rnd = random.Random(12345)
    engine._native[0] = True
    try:
        for _ in range(1500):
            nums = [rnd.randint(0, 40) for _ in range(8)]
            strs = ['"%s"' % rnd.choice("0Az") for _ in range(4)]
            try:
                _, _, items = _shape_tokens_and_items(shape, nums, strs)
                assume_wellformed_disjoint(items)
                return True
            except engine.AssumeFailed:
                continue
        return False
    finally:
        engine._native[0] = False


def _fits(shape):
    nnum = sum(1 for it in shape for s in it[:2] if s is not None and s[0] == "num")
    nstr = sum(1 for it in shape for s in it[:2] if s is not None and s[0] == "str")
    return nnum <= 8 and nstr <= 4


def build(tier, seed):
    rnd = random.Random(seed)
    queries = []
    stubs_b = ("S-TOK tokenize_without_space -> fixed token sequence", "S-INT int(text, 0) -> symbolic non-negative int",
               "S-FMT opaque message formatting")
    # H1a
    mk, rp = h1a_symbolic_shape()
    queries.append(Query("C01/H1a/n<=2-symbolic-shape", "H1a", mk, "0-2 items, kinds symbolic, all integers unbounded",
                         budget_s=120, expect=("in", "out"), replay=rp, functions=FUNCS, stubs=("S-FMT",)))
    kinds3 = [k for n in ((3, 4) if tier == "thorough" else (3,)) for k in itertools.product(("c", "lo", "hi"), repeat=n)
              if k.count("lo") <= 1 and k.count("hi") <= 1]
    # (the harness has 8 number parameters: 4 items is the maximum)
    if tier == "quick":
        kinds3 = rnd.sample(kinds3, 6)
    for k in kinds3:
        mk, rp = make_h1a(k)
        queries.append(Query("C01/H1a/" + "-".join(k), "H1a", mk, "%d items (%s), all integers unbounded" % (len(k), k),
                             budget_s=240, expect=("in", "out"), replay=rp, functions=FUNCS, stubs=("S-FMT",)))
    # H1b
    specs = all_item_specs()
    shapes = [(s,) for s in specs]
    two = [(a, b) for a in specs for b in specs]
    if tier == "quick":
        shapes = rnd.sample(shapes, 14) + rnd.sample(two, 26)
    else:
        more = []
        for n in (3, 4):
            for _ in range(150):
                more.append(tuple(rnd.choice(specs) for _ in range(n)))
        shapes = shapes + two + more
    shapes = [s for s in shapes if _fits(s) and _feasible(s)]
    for i, shape in enumerate(shapes):
        mk, rp = make_h1b(shape)
        text = shape_text(shape, [7] * 8, ["c"] * 4)
        queries.append(Query("C01/H1b/%03d:%s" % (i, text.replace("7", "N").replace('"c"', "'?'")), "H1b", mk,
                             "token shape %r; every NUMBER value symbolic (unbounded), quoted characters symbolic"
                             % text, budget_s=120, expect=(), replay=rp, functions=FUNCS, stubs=stubs_b))
    for name, toks in MALFORMED.items():
        queries.append(Query("C01/H1b/malformed/" + name, "H1b-malformed", make_malformed(toks),
                             "malformed token sequence must raise InterfaceError", budget_s=60, expect=("rejected",),
                             functions=FUNCS, stubs=stubs_b,
                             replay=lambda args: (False, "malformed shapes are replayed by C10", "range-malformed")))
    # H1c
    scales = (0, 1, 2, 3) if tier == "thorough" else (2,)
    descs = DECIMAL_DESCRIPTIONS if tier == "thorough" else DECIMAL_DESCRIPTIONS[:5]
    for d in descs:
        for s in scales:
            queries.append(Query("C01/H1c/%s/scale%d" % (d, s), "H1c", make_h1c(d, s),
                                 "DecimalRange(%r), value k/10^%d for all |k| < 10^6" % (d, s), budget_s=120,
                                 expect=("in", "out") if _decimal_in_reachable(d, s) else ("out",), functions=FUNCS,
                                 stubs=("S-FMT",)))
    # H1d sweep
    sw = sweep_descriptions()
    chunk = 120
    for i in range(0, len(sw), chunk):
        mk, rp = make_sweep(sw[i:i + chunk])
        queries.append(Query("C01/H1d/sweep-%d" % (i // chunk), "H1d-sweep", mk,
                             "%d real descriptions (1-2 items, limits in -2..2/none) x ALL integers v" % len(sw[i:i + chunk]),
                             budget_s=240, expect=("low", "mid", "high"), replay=rp, functions=FUNCS, stubs=("S-FMT",)))

    def native():
        n1, f1, samples = native_frontend(tier, seed)
        n2, f2 = native_decimal_checks()
        return dict(count=n1 + n2, failures=f1 + f2, samples=samples)

    return dict(
        queries=queries, native=native,
        assumptions=["range items are well-formed (lower <= upper) and pairwise non-overlapping, as the property "
                     "states", "NUMBER tokens denote non-negative integers (contract of the tokenizer)"],
        outside_claim=["descriptions with more than 4 items", "decimal probe values with |k| >= 10^6 or more than 3 "
                       "fractional digits", "what the C tokenizer does with text outside the documented grammar (C10)"],
        exhaustive=(tier == "thorough"),
    )


def replay_case(case):
    plan = build("thorough", 0)
    for q in plan["queries"]:
        if q.qid == case.get("query") and q.replay:
            rep, detail, _ = q.replay(case["args"])
            return rep, detail
    if case.get("query") == "native":
        from cutplace import ranges
        text = case["args"]["text"]
        try:
            r = ranges.Range(text) if case.get("key") != "decimal-range-constructor" else ranges.DecimalRange(text)
            return False, "now accepted: items=%r (compare with the expectation recorded in the case)" % (r.items,)
        except Exception as e:  # noqa
            return True, "%s: %s" % (type(e).__name__, e)
    return False, "no such query: %r" % case.get("query")
