"""C11  Data-format properties mean what the CID says; contradictions are refused.  (DESIGN.md section 6, C11)"""
from vlib.engine import Query, assume
from vlib.envstubs import patched, IntStub
from vlib import rowflow as rf

FUNCS = ("cutplace.data.DataFormat.validate", "cutplace.data.DataFormat.set_property",
         "cutplace.data.DataFormat._validated_choice", "cutplace.data.DataFormat._validated_int_at_least_0",
         "cutplace.data.DataFormat._validated_character", "cutplace.data.DataFormat._validated_bool",
         "cutplace.data.DataFormat.__init__")
QUOTES = sorted("!\"#$%&'*+-/:;=?\\^_`~")
LINE = {0: "any", 1: "\n", 2: "\r", 3: "\r\n"}


def fresh(fmt):
    from cutplace import data
    with rf.untraced():
        return data.DataFormat(fmt)


# ------------------------------------------------------------------ consistency rules
def make_consistency(fmt):
    def go(item, quote, esc_is_quote, line, dec_comma, thousands):
        from cutplace import errors

        assume(len(item) == 1 and len(quote) == 1)
        assume(0 <= line <= 3 and 0 <= thousands <= 2)
        df = fresh(fmt)
        dec = "," if dec_comma else "."
        tho = (",", ".", "")[thousands]
        esc = '"' if esc_is_quote else "\\"
        if fmt == "delimited":
            df._item_delimiter = item
            df._quote_character = quote
            df._escape_character = esc
        if fmt in ("delimited", "fixed"):
            df._line_delimiter = LINE[line]
            df._decimal_separator = dec
            df._thousands_separator = tho
        refuse = False
        if fmt in ("delimited", "fixed") and dec == tho:
            refuse = True
        if fmt == "delimited":
            ld = LINE[line]
            if item == quote or item == ld or quote == ld or esc == ld:
                refuse = True
        with patched(rf.smart_repr()):
            try:
                df.validate()
                refused = False
            except errors.InterfaceError:
                refused = True
        ok = refused == refuse and df.is_valid == (not refuse)
        return ok, ("refused" if refuse else "valid")

    def mk(mode):
        def h(item: str, quote: str, esc_is_quote: bool, line: int, dec_comma: bool, thousands: int):
            return go(item, quote, esc_is_quote, line, dec_comma, thousands)

        return h

    def replay(args):
        """through set_property where the setters admit the value, else directly (state no setter can produce is not a
        finding)"""
        from cutplace import data, errors
        df = data.DataFormat(fmt)
        defaults = data.DataFormat(fmt)

        def put(key, text, internal):
            # a value equal to the documented default is left unset (the CID simply does not mention the property)
            if getattr(defaults, "_" + key) != internal:
                df.set_property(key, text)

        try:
            if fmt == "delimited":
                put(data.KEY_ITEM_DELIMITER, str(ord(args["item"])), args["item"])
                put(data.KEY_QUOTE_CHARACTER, args["quote"], args["quote"])
                esc = '"' if args["esc_is_quote"] else "\\"
                put(data.KEY_ESCAPE_CHARACTER, esc, esc)
            if fmt in ("delimited", "fixed"):
                put(data.KEY_LINE_DELIMITER, {0: "any", 1: "lf", 2: "cr", 3: "crlf"}[args["line"]], LINE[args["line"]])
                put(data.KEY_DECIMAL_SEPARATOR, "," if args["dec_comma"] else ".", "," if args["dec_comma"] else ".")
                put(data.KEY_THOUSANDS_SEPARATOR, (",", ".", "")[args["thousands"]], (",", ".", "")[args["thousands"]])
        except errors.InterfaceError as e:
            return False, "state not reachable through set_property: %s" % e, "consistency"
        dec = "," if args["dec_comma"] else "."
        tho = (",", ".", "")[args["thousands"]]
        ld = LINE[args["line"]]
        esc = '"' if args["esc_is_quote"] else "\\"
        refuse = fmt in ("delimited", "fixed") and dec == tho
        if fmt == "delimited" and (args["item"] == args["quote"] or args["item"] == ld or args["quote"] == ld or esc == ld):
            refuse = True
        try:
            df.validate()
            refused = False
        except errors.InterfaceError:
            refused = True
        return refused != refuse, "format %s item %r quote %r escape %r line %r decimal %r thousands %r: refused=%s expected %s" % (
            fmt, args["item"], args["quote"], esc, ld, dec, tho, refused, refuse), "consistency"

    return mk, replay


# ------------------------------------------------------------------ choice valued properties
CHOICE_PROPS = {
    "quote_character": ("delimited", QUOTES, "_quote_character", False),
    "escape_character": ("delimited", ['"', "\\"], "_escape_character", False),
    "decimal_separator": ("delimited", [".", ","], "_decimal_separator", False),
    "thousands_separator": ("fixed", [",", ".", ""], "_thousands_separator", False),
}


def make_choice_prop(name):
    fmt, choices, attr, _ = CHOICE_PROPS[name]

    def go(value):
        from cutplace import errors

        df = fresh(fmt)
        exp = False
        for c in choices:
            if value == c:
                exp = True
        with patched(rf.smart_repr()):
            try:
                df.set_property(name, value)
                accepted = True
            except errors.InterfaceError:
                accepted = False
        ok = accepted == exp and (not accepted or getattr(df, attr) == value)
        return ok, ("set" if exp else "refused")

    def mk(mode):
        def h(value: str):
            return go(value)

        return h

    return mk


CI_PROPS = {
    "quoting": ("delimited", {"all": 1, "minimal": 0}, "_quoting"),  # csv.QUOTE_ALL = 1, QUOTE_MINIMAL = 0
    "line_delimiter": ("delimited", {"any": "any", "lf": "\n", "cr": "\r", "crlf": "\r\n"}, "_line_delimiter"),
    "line_delimiter/fixed": ("fixed", {"any": "any", "lf": "\n", "cr": "\r", "crlf": "\r\n", "none": None}, "_line_delimiter"),
    "skip_initial_space": ("delimited", {"true": True, "false": False}, "_skip_initial_space"),
}


def _lower_ascii(value):
    out = []
    for c in value:
        o = ord(c)
        out.append(o + 32 if 65 <= o <= 90 else o)
    return out


def make_ci_prop(key, maxlen):
    fmt, table, attr = CI_PROPS[key]
    name = key.split("/")[0]

    def go(value):
        from cutplace import errors

        assume(len(value) <= maxlen)
        for c in value:
            assume(ord(c) < 128)
        df = fresh(fmt)
        low = _lower_ascii(value)
        exp = None
        found = False
        for text, internal in table.items():
            if len(low) == len(text) and all(low[i] == ord(text[i]) for i in range(len(text))):
                exp = internal
                found = True
        with patched(rf.smart_repr()):
            try:
                df.set_property(name, value)
                accepted = True
            except errors.InterfaceError:
                accepted = False
        got = getattr(df, attr)
        ok = accepted == found and (not accepted or (got is exp if exp is None or isinstance(exp, bool) else got == exp))
        return ok, ("set" if found else "refused")

    def mk(mode):
        def h(value: str):
            return go(value)

        return h

    return mk


# ------------------------------------------------------------------ numeric properties (S-INT)
def make_numeric(name, fmt, minimum):
    def go(value, fail, n):
        from cutplace import data, errors

        df = fresh(fmt)
        stub = IntStub(fail=fail, value=n)
        with patched(rf.smart_repr(), (data, "int", stub)):
            try:
                df.set_property(name, value)
                accepted = True
            except errors.InterfaceError:
                accepted = False
        exp = (not fail) and n >= minimum
        ok = accepted == exp and len(stub.seen) == 1 and stub.seen[0] == value and (
            not accepted or getattr(df, "_" + name) == n)
        return ok, ("set" if exp else ("nan" if fail else "small"))

    def mk(mode):
        def h(value: str, fail: bool, n: int):
            return go(value, fail, n)

        return h

    def replay(args):
        from cutplace import data, errors
        df = data.DataFormat(fmt)
        text = "x" if args["fail"] else str(args["n"])
        exp = (not args["fail"]) and args["n"] >= minimum
        try:
            df.set_property(name, text)
            accepted = True
        except errors.InterfaceError:
            accepted = False
        except Exception as e:  # noqa
            return True, "set_property(%r, %r) under %s raised %s: %s" % (name, text, fmt, type(e).__name__, e), "numeric-property"
        return accepted != exp or (accepted and getattr(df, "_" + name) != args["n"]), \
            "set_property(%r, %r) under %s: accepted=%s expected %s" % (name, text, fmt, accepted, exp), "numeric-property"

    return mk, replay


# ------------------------------------------------------------------ item delimiter, single character branch
def make_item_char():
    def go(value):
        from cutplace import errors

        assume(len(value) == 1)
        o = ord(value)
        assume(not (48 <= o <= 57))
        assume(not value.isspace())
        df = fresh("delimited")
        with patched(rf.smart_repr()):
            try:
                df.set_property("item_delimiter", value)
                accepted = True
            except errors.InterfaceError:
                accepted = False
        if o == 0:
            return (not accepted), "nul"
        return accepted and df._item_delimiter == value, "set"

    def mk(mode):
        def h(value: str):
            return go(value)

        return h

    return mk


# ------------------------------------------------------------------ native part: spellings, applicability, defaults, encodings
DOCUMENTED = {
    "delimited": {"allowed_characters", "encoding", "escape_character", "header", "item_delimiter", "line_delimiter",
                  "quote_character", "quoting", "skip_initial_space", "decimal_separator", "thousands_separator"},
    "fixed": {"allowed_characters", "encoding", "header", "line_delimiter", "decimal_separator", "thousands_separator"},
    "excel": {"allowed_characters", "encoding", "header", "sheet"},
    "ods": {"allowed_characters", "encoding", "header", "sheet"},
}
SAMPLE_VALUE = {"allowed_characters": "32...126", "encoding": "utf-8", "escape_character": "\\", "header": "1",
                "item_delimiter": ";", "line_delimiter": "lf", "quote_character": "'", "quoting": "all",
                "skip_initial_space": "true", "decimal_separator": ",", "thousands_separator": ",", "sheet": "2"}


def native_checks():
    from cutplace import data, errors, interface
    failures = []
    samples = []
    n = 0

    def fail(key, what, **args):
        failures.append(dict(key=key, what=what, args=args))

    # applicability: every property name x every format (+ names that are attributes but no properties)
    names = sorted(SAMPLE_VALUE) + ["is_valid", "format", "is valid", "valid_line_delimiter_texts", "nonsense"]
    for fmt in ("delimited", "fixed", "excel", "ods"):
        for name in names:
            for spelled in {name, name.replace("_", " ")}:
                n += 1
                df = data.DataFormat(fmt)
                value = SAMPLE_VALUE.get(name.replace(" ", "_"), "1")
                exp = name.replace(" ", "_") in DOCUMENTED[fmt]
                try:
                    df.set_property(spelled, value)
                    got = True
                except errors.InterfaceError:
                    got = False
                except Exception as e:  # noqa
                    fail("applicability", "set_property(%r, %r) under %s raised %s: %s" % (spelled, value, fmt, type(e).__name__, e),
                         name=spelled, fmt=fmt)
                    continue
                if got != exp:
                    fail("applicability", "property %r under format %s: accepted=%s, documented=%s" % (spelled, fmt, got, exp),
                         name=spelled, fmt=fmt)
    # every attribute the object happens to carry: a name is a property only if documented, else InterfaceError
    for fmt in ("delimited", "fixed", "excel", "ods"):
        for attr in sorted(vars(data.DataFormat(fmt))):
            name = attr.lstrip("_").lower()
            for spelled in {name, name.replace("_", " ")}:
                n += 1
                df = data.DataFormat(fmt)
                exp = name in DOCUMENTED[fmt]
                try:
                    df.set_property(spelled, SAMPLE_VALUE.get(name, "1"))
                    got = True
                except errors.InterfaceError:
                    got = False
                except Exception as e:  # noqa
                    fail("applicability", "set_property(%r, ..) under %s raised %s: %s" % (spelled, fmt, type(e).__name__, e), name=spelled, fmt=fmt)
                    continue
                if got != exp:
                    fail("applicability", "attribute name %r as property under %s: accepted=%s, documented=%s" % (spelled, fmt, got, exp), name=spelled, fmt=fmt)
    # data format rows may follow field rows: they mean the same and contradictions are still refused
    late = [("d,format,delimited\nd,item delimiter,;\nf,x\nd,quote character,;\n", False),
            ("d,format,delimited\nf,x\nd,thousands separator,.\n", False),
            ("d,format,delimited\nf,x\nd,item delimiter,10\nd,line delimiter,lf\n", False),
            ("d,format,fixed\nf,x,,,3\nd,decimal separator,\",\"\nd,thousands separator,\",\"\n", False),
            ("d,format,delimited\nf,x\nd,header,2\nd,item delimiter,;\nf,y\n", True),
            ("d,format,excel\nf,x\nd,sheet,3\n", True)]
    for text, ok in late:
        n += 1
        try:
            cid = interface.create_cid_from_string(text)
            got = True
        except errors.InterfaceError:
            got = False
        except Exception as e:  # noqa
            fail("late-data-format-row", "CID %r raised %s: %s" % (text, type(e).__name__, e), text=text)
            continue
        if got != ok:
            fail("late-data-format-row", "CID %r: accepted=%s expected %s" % (text, got, ok), text=text)
        elif ok and text.startswith("d,format,delimited") and (cid.data_format.header != 2 or cid.data_format.item_delimiter != ";"):
            fail("late-data-format-row", "CID %r: late properties not applied" % text, text=text)
    # the same through a CID row, names in any case
    for fmt in ("delimited", "fixed", "excel", "ods"):
        for name in sorted(SAMPLE_VALUE):
            n += 1
            text = "d,format,%s\nD,%s,%s\nf,x,,,%s\n" % (fmt, name.replace("_", " ").title(), '"%s"' % SAMPLE_VALUE[name].replace('"', '""'),
                                                       "3" if fmt == "fixed" else "")
            exp = name in DOCUMENTED[fmt]
            try:
                interface.create_cid_from_string(text)
                got = True
            except errors.InterfaceError:
                got = False
            except Exception as e:  # noqa
                fail("applicability-cid", "CID %r raised %s: %s" % (text, type(e).__name__, e), text=text)
                continue
            if got != exp:
                fail("applicability-cid", "CID row 'D,%s,..' under format %s: accepted=%s, documented=%s" % (name, fmt, got, exp), text=text)
    # setting one property leaves every other property at its value
    for fmt in ("delimited", "fixed", "excel", "ods"):
        for name in sorted(DOCUMENTED[fmt]):
            if name in ("format",) or name not in SAMPLE_VALUE:
                continue
            n += 1
            before = data.DataFormat(fmt)
            after = data.DataFormat(fmt)
            try:
                after.set_property(name, SAMPLE_VALUE[name])
            except errors.InterfaceError:
                continue
            changed = [other for other in sorted(DOCUMENTED[fmt]) if other != name and other != "format" and hasattr(before, other) and
                       str(getattr(before, other)) != str(getattr(after, other))]
            if changed:
                fail("property-independence", "under %s, setting %r = %r also changed %r" % (fmt, name, SAMPLE_VALUE[name], changed), name=name, fmt=fmt)
    for fmt in ("excel", "ods"):
        for first, second in ((("header", "1"), ("sheet", "3")), (("sheet", "3"), ("header", "1")), (("header", "0"), ("sheet", "2"))):
            n += 1
            df = data.DataFormat(fmt)
            df.set_property(*first)
            df.set_property(*second)
            want = dict([first, second])
            if str(df.header) != want["header"] or str(df.sheet) != want["sheet"]:
                fail("property-independence", "under %s, %s then %s gives header %r sheet %r" % (fmt, first, second, df.header, df.sheet), fmt=fmt)
    # numeric properties: a value is a number exactly if int() says so (nothing is cut off, nothing guessed)
    num_texts = ["0", "1", " 2 ", "+1", "007", "1.5", "2x", "1 000", "1e3", "0x10", "2nd", "x", "-1", "-0", "\uff11", "1_0", "1,5", "2.", ".5",
                 "\t3\n", "3 4", "--1", "1-", "one"]
    for fmt, name, minimum in (("delimited", "header", 0), ("fixed", "header", 0), ("excel", "header", 0), ("ods", "header", 0),
                               ("excel", "sheet", 1), ("ods", "sheet", 1)):
        for t in num_texts:
            n += 1
            try:
                exp_n = int(t)
            except ValueError:
                exp_n = None
            if exp_n is not None and exp_n < minimum:
                exp_n = None
            df = data.DataFormat(fmt)
            try:
                df.set_property(name, t)
                got = getattr(df, name)
            except errors.InterfaceError:
                got = None
            except Exception as e:  # noqa
                fail("numeric-property", "set_property(%r, %r) under %s raised %s: %s" % (name, t, fmt, type(e).__name__, e), name=name, value=t)
                continue
            if got != exp_n:
                fail("numeric-property", "set_property(%r, %r) under %s -> %r, expected %r" % (name, t, fmt, got, exp_n), name=name, value=t)
    # a value means the same whether it is set directly or written in a CID row (values keep their case)
    mixed = [("delimited", "quote_character", "'"), ("delimited", "escape_character", "\\"), ("delimited", "encoding", "UTF-8"),
             ("delimited", "line_delimiter", "CRLF"), ("delimited", "item_delimiter", "X"), ("delimited", "item_delimiter", "'Q'"),
             ("delimited", "item_delimiter", "TAB"), ("delimited", "item_delimiter", "0X3B"), ("delimited", "allowed_characters", "'A'...'Z'"),
             ("delimited", "allowed_characters", "0X41...0X5A, 'a'"), ("fixed", "allowed_characters", '"A"...'), ("delimited", "decimal_separator", ","),
             ("delimited", "thousands_separator", "'"), ("excel", "sheet", "2"), ("delimited", "skip_initial_space", "TRUE"),
             ("delimited", "header", "0X2"), ("delimited", "quote_character", "'\\x7C'"), ("delimited", "item_delimiter", "'\\U0000007c'")]
    for fmt, name, value in mixed:
        n += 1
        try:
            df = data.DataFormat(fmt)
            df.set_property(name, value)
            direct = getattr(df, name)
            direct = direct.items if hasattr(direct, "items") else direct
        except Exception as e:  # noqa
            direct = "%s" % type(e).__name__
        try:
            c = interface.Cid()
            c.read("<native>", [["d", "format", fmt], ["d", name.replace("_", " "), value], ["f", "x", "", "", "3" if fmt == "fixed" else ""]])
            through = getattr(c.data_format, name)
            through = through.items if hasattr(through, "items") else through
        except Exception as e:  # noqa
            through = "%s" % type(e).__name__
        if direct != through:
            fail("cid-row-value", "property %r = %r under %s: set directly -> %r, through a CID row -> %r" % (name, value, fmt, direct, through),
                 name=name, value=value)
    # spellings of the item delimiter
    pool = list(range(33, 127)) + [9, 167, 8364]
    names_map = {9: "tab", 10: "lf", 13: "cr", 12: "ff", 11: "vt"}
    for code in pool:
        ch = chr(code)
        if ch in '",' or code in (34,):
            continue
        spellings = ["%d" % code, "0x%x" % code, "0X%X" % code]
        if not ch.isdigit() and not ch.isspace():
            spellings.append(ch)
            spellings.append(" " + ch + " ")
        if ch not in "'\\":
            spellings.append("'%s'" % ch)
        if ch not in '"\\':
            spellings.append('"%s"' % ch)
        if code < 256:
            spellings.append('"\\x%02x"' % code)
        spellings.append("'\\u%04x'" % code)
        if code in names_map:
            spellings += [names_map[code], names_map[code].upper(), names_map[code].capitalize()]
        if code == 9:
            spellings.append('"\\t"')
        for sp in spellings:
            n += 1
            df = data.DataFormat("delimited")
            try:
                df.set_property("item_delimiter", sp)
                got = df.item_delimiter
            except Exception as e:  # noqa
                got = "%s: %s" % (type(e).__name__, e)
            # ... and the same spelling written in a CID row
            try:
                c = interface.Cid()
                c.read("<native>", [["d", "format", "delimited"], ["D", "Item Delimiter", sp], ["f", "x"]])
                got_cid = c.data_format.item_delimiter
            except Exception as e:  # noqa
                got_cid = "%s: %s" % (type(e).__name__, e)
            if got != ch:
                fail("item-delimiter-spelling", "item delimiter %r (code %d) -> %r, expected %r" % (sp, code, got, ch), spelling=sp)
            elif got_cid != ch:
                fail("item-delimiter-spelling", "item delimiter %r (code %d) in a CID row -> %r, expected %r" % (sp, code, got_cid, ch), spelling=sp)
            elif len(samples) < 2:
                samples.append(dict(query="native/spelling", spelling=sp, character=ch))
    for bad in ["", "  ", "ab", "'ab'", "1 2", "tab tab", "0", "'\\x00'", "nosuchname", "1.5", "((", "'a"]:
        n += 1
        df = data.DataFormat("delimited")
        try:
            df.set_property("item_delimiter", bad)
            fail("item-delimiter-malformed", "malformed item delimiter %r accepted as %r" % (bad, df.item_delimiter), spelling=bad)
        except errors.InterfaceError:
            pass
        except Exception as e:  # noqa
            fail("item-delimiter-malformed", "malformed item delimiter %r raised %s: %s" % (bad, type(e).__name__, e), spelling=bad)
    # defaults
    n += 1
    d = data.DataFormat("delimited")
    x = data.DataFormat("excel")
    o = data.DataFormat("ods")
    f = data.DataFormat("fixed")
    if not (d.header == 0 and x.header == 0 and x.sheet == 1 and o.sheet == 1 and d.decimal_separator == "." and
            d.thousands_separator == "" and f.decimal_separator == "." and f.thousands_separator == "" and f.header == 0):
        fail("defaults", "defaults differ from header 0 / sheet 1 / decimal separator '.' / no thousands separator")
    # encodings
    for enc, exp in (("utf-8", True), ("UTF-8", True), ("latin-1", True), ("cp1252", True), ("ascii", True), ("utf_16", True),
                     ("no-such-encoding", False), ("", False), ("utf-99", False)):
        n += 1
        df = data.DataFormat("delimited")
        try:
            df.set_property("encoding", enc)
            got = True
        except errors.InterfaceError:
            got = False
        except Exception as e:  # noqa
            fail("encoding", "encoding %r raised %s: %s" % (enc, type(e).__name__, e), encoding=enc)
            continue
        if got != exp:
            fail("encoding", "encoding %r: accepted=%s expected %s" % (enc, got, exp), encoding=enc)
    return dict(count=n, failures=failures, samples=samples)


def build(tier, seed):
    q = []
    for fmt in ("delimited", "fixed", "excel"):
        mk, rp = make_consistency(fmt)
        q.append(Query("C11/consistency/%s" % fmt, "consistency", mk,
                       "DataFormat.validate on a directly assigned state: item delimiter and quote character any single "
                       "character, escape quote/backslash, all line delimiters and separator settings (%s)" % fmt,
                       budget_s=300, expect=("valid", "refused") if fmt != "excel" else ("valid",), replay=rp, functions=FUNCS,
                       stubs=("S-FMT",)))
    for name in CHOICE_PROPS:
        q.append(Query("C11/choice/%s" % name, "choice-property", make_choice_prop(name),
                       "set_property(%r, value): value text unbounded" % name, budget_s=300, expect=("set", "refused"),
                       functions=FUNCS, stubs=("S-FMT",)))
    for key in CI_PROPS:
        ml = 3 if tier == "quick" else 5
        if tier == "quick" and key not in ("quoting", "line_delimiter/fixed"):
            continue
        q.append(Query("C11/ci/%s" % key, "ci-property", make_ci_prop(key, ml),
                       "set_property(%r, value): ASCII value up to %d characters, case-insensitive" % (key, ml),
                       budget_s=900 if tier == "quick" else 3000, per_path_timeout=120,
                       expect=("set", "refused") if ml >= 4 or key == "quoting" else ("refused",) if ml < 2 else ("set", "refused"),
                       functions=FUNCS, stubs=("S-FMT",)))
    for name, fmt, minimum in (("header", "delimited", 0), ("header", "ods", 0), ("sheet", "excel", 1), ("sheet", "ods", 1)):
        mk, rp = make_numeric(name, fmt, minimum)
        q.append(Query("C11/numeric/%s/%s" % (name, fmt), "numeric-property", mk,
                       "set_property(%r, value) under %s: value text unbounded, parsed integer unbounded" % (name, fmt),
                       budget_s=120, expect=("set", "nan", "small"), replay=rp, functions=FUNCS,
                       stubs=("S-INT data.int -> ValueError or a symbolic integer", "S-FMT")))
    q.append(Query("C11/item-delimiter/single-character", "item-char", make_item_char(),
                   "item delimiter given literally: any single character that is neither a digit nor white space",
                   budget_s=300, expect=("set", "nul"), functions=FUNCS, stubs=("S-FMT",)))
    return dict(queries=q, native=native_checks, warm=("strip", "lower"),
                assumptions=["documented applicability table per format as in vlib DOCUMENTED (from docs/cid.rst)"],
                outside_claim=["equivalence of the spellings of a code point and encodings: checked natively on a pool "
                               "(tokenizer / codecs are C), not by the solver", "case-insensitive properties beyond ASCII / the length bound"],
                exhaustive=False)


def replay_case(case):
    for q in build("thorough", 0)["queries"]:
        if q.qid == case.get("query") and q.replay:
            rep, detail, _ = q.replay(case["args"])
            return rep, detail
    return False, "native cases: re-run ./check C11"
