"""Dummy property used to exercise the engine micro-suite alone."""
def build(tier, seed):
    return dict(queries=[])
