"""C19  Generated SQL DDL mirrors the CID.  (DESIGN.md section 6, C19)"""
import re

from vlib.engine import Query, assume
from vlib.envstubs import patched
from vlib import rowflow as rf
from vlib import fieldfam as ff
from props.c01 import direct_range

FUNCS = ("cutplace.fields.IntegerFieldFormat.sql_ansi_type", "cutplace.sql.TransactSqlDialect.sql_type",
         "cutplace.sql.Db2SqlDialect.sql_type", "cutplace.sql.PlSqlDialect.sql_type", "cutplace.sql.AnsiSqlDialect.sql_type",
         "cutplace.sql.SqlFactory.sql_fields", "cutplace.sql.SqlFactory.create_table_statement",
         "cutplace.sql.AnsiSqlDialect.is_keyword", "cutplace.sql.assert_is_valid_ansi_type")
CAPACITY = {"tinyint": (0, 255), "smallint": (-2 ** 15, 2 ** 15 - 1), "int": (-2 ** 31, 2 ** 31 - 1),
            "integer": (-2 ** 31, 2 ** 31 - 1), "bigint": (-2 ** 63, 2 ** 63 - 1)}
MAX_PRECISION = {"transact": 38, "db2": 31, "pl": 38}
DIALECTS = ("transact", "db2", "pl")
COLUMN = re.compile(r"^\s+(\"?\w+\"?) (\w+)(?:\((\d+)(?:, (\d+))?\))?( not null)?( default .*)?$")


class FakeCid:
    def __init__(self, field_formats):
        self.field_formats = field_formats


def dialect_of(name):
    from cutplace import sql
    return {"transact": sql.TRANSACT_SQL_DIALECT, "db2": sql.DB2_SQL_DIALECT, "pl": sql.PL_SQL_DIALECT,
            "ansi": sql.ANSI_SQL_DIALECT}[name]


def parse_columns(statement):
    lines = statement.split("\n")
    assert lines[0].startswith("create table ") and lines[-1] == ");", statement
    cols = []
    for line in lines[1:-1]:
        m = COLUMN.match(line.rstrip(","))
        assert m, line
        cols.append(dict(name=m.group(1), type=m.group(2), p=None if m.group(3) is None else int(m.group(3)),
                         s=None if m.group(4) is None else int(m.group(4)), not_null=m.group(5) is not None))
    return cols


def holds(type_name, precision, dialect, lo, hi):
    """-> (ok, why)"""
    if type_name in CAPACITY:
        clo, chi = CAPACITY[type_name]
        if dialect == "pl" and type_name == "int":
            clo, chi = -(10 ** 38) + 1, 10 ** 38 - 1  # Oracle INT is NUMBER(38)
        return (clo <= lo and hi <= chi), "%s holds %d..%d" % (type_name, clo, chi)
    if type_name in ("decimal", "number"):
        if precision is None:
            return False, "%s without precision" % type_name
        if precision > MAX_PRECISION[dialect]:
            return False, "%s(%d) exceeds the dialect's maximum precision %d" % (type_name, precision, MAX_PRECISION[dialect])
        bound = 10 ** precision
        return (-bound < lo and hi < bound), "%s(%d) holds |x| < 10^%d" % (type_name, precision, precision)
    return False, "unknown integer column type %r" % type_name


def make_capacity(dialect, two_items):
    def go(lo, hi, lo2, hi2):
        from cutplace import sql

        assume(lo <= hi)
        items = [(lo, hi)]
        if two_items:
            assume(hi < lo2 <= hi2)
            items.append((lo2, hi2))
        # ranges no type of the dialect can hold are outside the claim (nothing could be 'able to store' them)
        top = 10 ** MAX_PRECISION[dialect]
        assume(-top < lo and items[-1][1] < top - 1)
        df = ff.data_format("delimited")
        field = ff.build_field("Integer", False, "", "0...1", df, name="n")
        rng = direct_range(items)
        rng._lower_limit = lo
        rng._upper_limit = items[-1][1]
        field.valid_range = rng
        with patched(rf.smart_repr()):
            factory = sql.SqlFactory(FakeCid([field]), "t", dialect_of(dialect))
            rows = list(factory.sql_fields())
        name, type_name, length, precision, _, _ = rows[0]
        ok, why = holds(type_name, length if type_name in ("decimal", "number") else None, dialect, lo, items[-1][1])
        return ok, type_name, why

    def mk(mode):
        def h(lo: int, hi: int, lo2: int, hi2: int):
            ok, cls, _ = go(lo, hi, lo2, hi2)
            return ok, cls

        return h

    def replay(args):
        """through a real CID and the generated statement text"""
        from cutplace import interface, sql
        lo, hi, lo2, hi2 = args["lo"], args["hi"], args["lo2"], args["hi2"]
        rule = "%d...%d" % (lo, hi) + (", %d...%d" % (lo2, hi2) if two_items else "")
        top = hi2 if two_items else hi
        cid = interface.create_cid_from_string("d,format,delimited\nf,n,,,,Integer,\"%s\"\n" % rule)
        stmt = sql.SqlFactory(cid, "t", dialect_of(dialect)).create_table_statement()
        col = parse_columns(stmt)[0]
        ok, why = holds(col["type"], col["p"] if col["type"] in ("decimal", "number") else None, dialect, lo, top)
        extra = ""
        if ok and col["type"] in CAPACITY and col["p"] is not None:
            ok, extra = False, " (an integer type rendered with a size: %r)" % stmt.split("\n")[1].strip()
        key = "sql-integer-type"
        if not ok:
            if col["type"] == "tinyint" and lo < 0:
                key = "transact-tinyint-for-negative-limit"
        return (not ok), "%s: Integer rule %r -> %r: %s%s" % (dialect, rule, stmt.split("\n")[1].strip(), why, extra), key

    return mk, replay


NAMES4 = ["customer_id", "select", "index", "surname"]
MIXED = [("Text", "...20", ""), ("Integer", "", "0...40000"), ("Decimal", "", "0...9.99"), ("Integer", "", "-5...5")]


def make_columns(dialect, n, mixed=False):
    def go(flags):
        from cutplace import sql

        df = ff.data_format("delimited")
        fields_ = []
        for i in range(n):
            t, length, rule = MIXED[i] if mixed else ("Text", "...20", "")
            f = ff.build_field(t, False, length, rule, df, name=NAMES4[i])
            f._is_allowed_to_be_empty = flags[i]
            fields_.append(f)
        d = dialect_of(dialect)
        with patched(rf.smart_repr()):
            stmt = sql.SqlFactory(FakeCid(fields_), "t", d).create_table_statement()
        with rf.untraced():
            pass
        cols = parse_columns(stmt)
        ok = len(cols) == n
        for i in range(n if ok else 0):
            quoted = d.is_keyword(NAMES4[i])
            want = ('"%s"' % NAMES4[i]) if quoted else NAMES4[i]
            if cols[i]["name"] != want or cols[i]["not_null"] != (not flags[i]):
                ok = False
            if mixed:
                t = MIXED[i][0]
                if t == "Integer" and (cols[i]["type"] not in CAPACITY or cols[i]["p"] is not None):
                    ok = False  # an integer column carries no size
                if t == "Text" and (cols[i]["p"] != 20 or cols[i]["s"] is not None):
                    ok = False
                if t == "Decimal" and (cols[i]["p"] != 3 or cols[i]["s"] != 2):
                    ok = False
        return ok, "cols%d" % n, stmt

    def mk(mode):
        def h(e0: bool, e1: bool, e2: bool, e3: bool):
            ok, cls, _ = go([e0, e1, e2, e3])
            return ok, cls

        return h

    def replay(args):
        from cutplace import interface, sql
        flags = [args["e0"], args["e1"], args["e2"], args["e3"]]
        decl = [MIXED[i] if mixed else ("Text", "...20", "") for i in range(n)]
        text = "d,format,delimited\n" + "".join("f,%s,,%s,%s,%s,%s\n" % (NAMES4[i], "X" if flags[i] else "", decl[i][1], decl[i][0],
                                                                       decl[i][2]) for i in range(n))
        cid = interface.create_cid_from_string(text)
        d = dialect_of(dialect)
        stmt = sql.SqlFactory(cid, "t", d).create_table_statement()
        ok, _, _ = go(flags)
        cols = parse_columns(stmt)
        bad = (not ok) or len(cols) != n
        for i in range(0 if bad else n):
            want = ('"%s"' % NAMES4[i]) if d.is_keyword(NAMES4[i]) else NAMES4[i]
            if cols[i]["name"] != want or cols[i]["not_null"] != (not flags[i]):
                bad = True
            if decl[i][0] == "Integer" and cols[i]["p"] is not None:
                bad = True
        return bad, "%s, empty flags %r: %r" % (dialect, flags[:n], stmt), "sql-columns"

    return mk, replay


def native_checks():
    """concrete: keyword quoting per dialect, decimal digits, text lengths, integer type boundaries"""
    from cutplace import interface, sql
    failures = []
    n = 0
    samples = []

    def fail(key, what, **args):
        failures.append(dict(key=key, what=what, args=args))

    # dialect specific keywords must be quoted, other names not
    kw = {"transact": ["index", "top", "file", "database", "select"], "db2": ["index", "comment", "select"],
          "pl": ["index", "comment", "select"], "ansi": ["select", "add", "table"]}
    plain = ["customer_id", "surname", "x1"]
    for dname, words in kw.items():
        d = dialect_of(dname)
        # (SQL keywords are case-insensitive: 'Index' and 'INDEX' are as reserved as 'index')
        cased = [w.upper() for w in words] + [w.capitalize() for w in words]
        for w in words + cased + plain + [p.upper() for p in plain]:
            n += 1
            cid = interface.create_cid_from_string("d,format,delimited\nf,%s,,,...5,Text\n" % w)
            try:
                stmt = sql.SqlFactory(cid, "t", d).create_table_statement()
                col = parse_columns(stmt)[0]
                want = ('"%s"' % w) if w.lower() in words else w
                if col["name"] != want:
                    fail("sql-keyword-quoting", "%s: field %r rendered as %r, expected %r" % (dname, w, col["name"], want), dialect=dname, name=w)
            except Exception as e:  # noqa
                fail("sql-keyword-quoting", "%s: field %r: %s: %s" % (dname, w, type(e).__name__, e), dialect=dname, name=w)
    # a name is quoted exactly if it is a keyword of the dialect *this* statement is made for, whatever was
    # generated before in the same process (keyword tables of the dialects as documented by their vendors)
    table = {"index": dict(ansi=False, transact=True, db2=True), "date": dict(ansi=True, transact=False, db2=False),
             "top": dict(ansi=False, transact=True, db2=False), "comment": dict(ansi=False, transact=False, db2=True),
             "level": dict(ansi=True, transact=False, db2=False), "year": dict(ansi=True, transact=False, db2=True),
             "select": dict(ansi=True, transact=True, db2=True), "customer_id": dict(ansi=False, transact=False, db2=False)}
    import itertools as _it
    for order in _it.permutations(("ansi", "transact", "db2")):
        for w, exp in table.items():
            cid = interface.create_cid_from_string("d,format,delimited\nf,%s,,,...5,Text\nf,other,,,...5,Text\n" % w)
            for dname in order:
                n += 1
                try:
                    col = parse_columns(sql.SqlFactory(cid, "t", dialect_of(dname)).create_table_statement())[0]
                    want = ('"%s"' % w) if exp[dname] else w
                    if col["name"] != want:
                        fail("sql-keyword-quoting", "dialects in the order %r: %s renders field %r as %r, expected %r" % (
                            order, dname, w, col["name"], want), dialect=dname, name=w, order=list(order))
                except Exception as e:  # noqa
                    fail("sql-keyword-quoting", "%s: field %r: %s: %s" % (dname, w, type(e).__name__, e), dialect=dname, name=w)
    # one factory asked several times gives the same answer every time
    for dname in DIALECTS + ("ansi",):
        n += 1
        try:
            cid = interface.create_cid_from_string("d,format,delimited\nf,a,,,...5,Text\nf,index,,X,,Integer,0...99\nf,c,,,,Decimal,0...9.99\n")
            factory = sql.SqlFactory(cid, "t", dialect_of(dname))
            first_fields = list(factory.sql_fields())
            first = factory.create_table_statement()
            second = factory.create_table_statement()
            again_fields = list(factory.sql_fields())
            if first != second or first_fields != again_fields or len(parse_columns(second)) != 3:
                fail("sql-factory-reuse", "%s: create_table_statement() twice on one SqlFactory: %r then %r; sql_fields() %r then %r" % (
                    dname, first, second, first_fields, again_fields), dialect=dname)
        except Exception as e:  # noqa
            fail("sql-factory-reuse", "%s: reusing a SqlFactory raised %s: %s" % (dname, type(e).__name__, e), dialect=dname)
    # integer capacity at and around every type boundary (floats / logarithms in an implementation show up here)
    bounds = set()
    for b in [2 ** 7, 2 ** 8, 2 ** 15, 2 ** 16, 2 ** 31, 2 ** 32, 2 ** 63, 2 ** 64] + [10 ** k for k in range(1, 31)]:
        bounds.update([b - 1, b, b + 1])
    bounds = sorted(bounds)
    for dname in DIALECTS:
        d = dialect_of(dname)
        top = 10 ** MAX_PRECISION[dname] - 1
        for b in bounds:
            for lo, hi in ((0, b), (-b, 5), (-b, b), (-1, b)):
                if hi >= top or -lo >= top:
                    continue
                n += 1
                try:
                    cid = interface.create_cid_from_string("d,format,delimited\nf,n,,,,Integer,\"%d...%d\"\n" % (lo, hi))
                    stmt = sql.SqlFactory(cid, "t", d).create_table_statement()
                    col = parse_columns(stmt)[0]
                    ok, why = holds(col["type"], col["p"] if col["type"] in ("decimal", "number") else None, dname, lo, hi)
                    if ok and col["type"] in CAPACITY and col["p"] is not None:
                        ok, why = False, "integer type rendered with a size"
                except Exception as e:  # noqa
                    ok, why, stmt = False, "%s: %s" % (type(e).__name__, e), "?"
                if not ok and not (dname == "transact" and lo < 0 and col["type"] == "tinyint"):
                    fail("sql-integer-boundary", "%s: Integer rule %d...%d -> %r: %s" % (dname, lo, hi, stmt.split("\n")[1].strip() if "\n" in stmt else stmt, why),
                         dialect=dname, lo=lo, hi=hi)
    # multi-item ranges: the overall limits decide (a first item ending at 0 must not hide the later ones)
    for dname in DIALECTS + ("ansi",):
        d = dialect_of(dname)
        for rule, lo, hi in (("0, 10...70000", 0, 70000), ("0...9, -100000...-50", -100000, 9), ("-3...0, 5...40000", -3, 40000),
                             ("10...70000, 0", 0, 70000), ("0, 300", 0, 300)):
            n += 1
            cid = interface.create_cid_from_string("d,format,delimited\nf,n,,,,Integer,\"%s\"\n" % rule)
            stmt = sql.SqlFactory(cid, "t", d).create_table_statement()
            col = parse_columns(stmt)[0]
            if dname == "ansi":
                continue
            ok, why = holds(col["type"], col["p"] if col["type"] in ("decimal", "number") else None, dname, lo, hi)
            if not ok and not (dname == "transact" and lo < 0 and col["type"] == "tinyint"):
                fail("sql-integer-boundary", "%s: Integer rule %r -> %r: %s" % (dname, rule, stmt.split("\n")[1].strip(), why), dialect=dname, rule=rule)
        for length, upper in (("0, 5...10", 10), ("5...10, 0", 10)):
            n += 1
            cid = interface.create_cid_from_string("d,format,delimited\nf,name,,X,\"%s\",Text\n" % length)
            col = parse_columns(sql.SqlFactory(cid, "t", d).create_table_statement())[0]
            if col["p"] != upper:
                fail("sql-text-length", "%s: Text length %r -> size %r, expected %d" % (dname, length, col["p"], upper), dialect=dname, length=length)
        # fixed-width CIDs: text columns keep their length
        for t, rule in (("Text", ""), ("Choice", "\"abc,de\""), ("Pattern", "a*"), ("RegEx", "a.*")):
            n += 1
            cid = interface.create_cid_from_string("d,format,fixed\nf,name,,,12,%s,%s\n" % (t, rule))
            stmt = sql.SqlFactory(cid, "t", d).create_table_statement()
            col = parse_columns(stmt)[0]
            if col["p"] != 12:
                fail("sql-text-length", "%s: fixed-width %s field of width 12 -> %r" % (dname, t, stmt.split("\n")[1].strip()), dialect=dname, type=t)
    # decimal digits and text lengths
    for dname in ("ansi", "transact", "db2", "pl"):
        d = dialect_of(dname)
        for rule, total, frac in (("0...299.99", 5, 2), ("-1.5:20.25", 4, 2), ("0.001...9.999", 4, 3), ("0...1000", 4, 0)):
            n += 1
            cid = interface.create_cid_from_string("d,format,delimited\nf,amount,,,,Decimal,%s\n" % rule)
            stmt = sql.SqlFactory(cid, "t", d).create_table_statement()
            col = parse_columns(stmt)[0]
            if col["type"] not in ("decimal", "number") or col["p"] != total or col["s"] != frac:
                fail("sql-decimal-digits", "%s: Decimal rule %r -> %r, expected %d total and %d fractional digits" % (
                    dname, rule, stmt.split("\n")[1].strip(), total, frac), dialect=dname, rule=rule)
        for length, upper in (("...60", 60), ("1...7", 7), ("3", 3), ("2, 4...9", 9)):
            n += 1
            cid = interface.create_cid_from_string("d,format,delimited\nf,name,,,\"%s\",Text\n" % length)
            stmt = sql.SqlFactory(cid, "t", d).create_table_statement()
            col = parse_columns(stmt)[0]
            if col["type"] not in ("varchar", "varchar2", "char") or col["p"] != upper:
                fail("sql-text-length", "%s: Text length %r -> %r, expected length %d" % (dname, length, stmt.split("\n")[1].strip(), upper),
                     dialect=dname, length=length)
            elif len(samples) < 2:
                samples.append(dict(query="native/text-length", dialect=dname, length=length, column=stmt.split("\n")[1].strip()))
    return dict(count=n, failures=failures, samples=samples)


def build(tier, seed):
    q = []
    for dialect in DIALECTS:
        for two in (False, True):
            mk, rp = make_capacity(dialect, two)
            q.append(Query("C19/capacity/%s/%s" % (dialect, "two-items" if two else "one-item"), "integer-capacity", mk,
                           "Integer field whose valid range is %s with all limits symbolic (lower <= upper, unbounded), "
                           "dialect %s" % ("two disjoint items" if two else "one item", dialect), budget_s=300,
                           replay=rp, functions=FUNCS, stubs=("S-FMT",), keep_going=(dialect == "transact"), max_cex=400))
    for dialect in ("ansi",) + DIALECTS:
        for n in ((1, 4) if tier == "quick" else (1, 2, 3, 4)):
            mk, rp = make_columns(dialect, n)
            q.append(Query("C19/columns/%s/%d" % (dialect, n), "columns", mk,
                           "%d Text fields (names %r) with symbolic empty flags, dialect %s" % (n, NAMES4[:n], dialect),
                           budget_s=120, replay=rp, functions=FUNCS, stubs=("S-FMT",)))
        mk, rp = make_columns(dialect, 4, mixed=True)
        q.append(Query("C19/columns/%s/mixed-types" % dialect, "columns", mk,
                       "Text, Integer, Decimal, Integer fields in this order with symbolic empty flags, dialect %s: sizes belong "
                       "to their own column only" % dialect, budget_s=120, replay=rp, functions=FUNCS, stubs=("S-FMT",)))
    return dict(queries=q, native=native_checks,
                assumptions=["capacities: tinyint 0..255, smallint 16 bit, int/integer 32 bit, bigint 64 bit, Oracle int = "
                             "number(38); decimal/number(p) holds |x| < 10^p with p <= 38 (Transact-SQL, Oracle) / 31 (DB2)",
                             "ANSI 'int' has implementation-defined capacity: no claim"],
                outside_claim=["ranges reaching 10^p - 1 or beyond for the dialect's maximum precision p (no type could hold "
                               "more; at exactly 10^p - 1 the generated precision is one digit more than necessary)",
                               "decimal digit counts and text lengths have no quantifier left (computed from literal digits): "
                               "checked natively on samples"],
                exhaustive=False)


def replay_case(case):
    for q in build("thorough", 0)["queries"]:
        if q.qid == case.get("query") and q.replay:
            rep, detail, _ = q.replay(case["args"])
            return rep, detail
    return False, "native cases: re-run ./check C19"
