"""C02  Each field type accepts exactly the values its rule describes.  (DESIGN.md section 6, C02)

FIELD family with the real constructors and the real validated()/validated_value(); the C callees are stubbed:
S-INT (int), S-DEC (decimal.Decimal), S-STRP (time.strptime).  Not claimed: calendar validity (inside strptime)."""
import decimal
import itertools
import random
from fractions import Fraction

from vlib.engine import Query, assume
from vlib.envstubs import patched, IntStub
from vlib import rowflow as rf
from vlib import fieldfam as ff

FUNCS = ("cutplace.fields.IntegerFieldFormat.__init__", "cutplace.fields.IntegerFieldFormat.validated_value",
         "cutplace.fields.DecimalFieldFormat.__init__", "cutplace.fields.DecimalFieldFormat.validated_value",
         "cutplace.fields.ChoiceFieldFormat.__init__", "cutplace.fields.ChoiceFieldFormat.validated_value",
         "cutplace.fields.ConstantFieldFormat.validated_value", "cutplace.fields.DateTimeFieldFormat.__init__",
         "cutplace.fields.DateTimeFieldFormat.validated_value", "cutplace.fields.RegExFieldFormat.validated_value",
         "cutplace.fields.PatternFieldFormat.validated_value", "cutplace.fields.TextFieldFormat.validated_value",
         "cutplace.fields.AbstractFieldFormat.validated", "cutplace.ranges.create_range_from_length",
         "cutplace.ranges.Range.validate", "cutplace.ranges.DecimalRange.validate")


def same(a, b):
    if len(a) != len(b):
        return False
    for i in range(len(a)):
        if ord(a[i]) != ord(b[i]):
            return False
    return True


# ------------------------------------------------------------------ Integer
def text_len_of_int(n):
    """len(str(n)) expressed with comparisons only (|n| < 10**9)"""
    m = n if n >= 0 else -n
    d = 1
    p = 10
    while d < 10 and m >= p:
        d += 1
        p *= 10
    return d + (1 if n < 0 else 0)


INT_RULES = {  # rule text -> items
    "": None,
    "-5...12, 100...": [(-5, 12), (100, None)],
    "0...99": [(0, 99)],
    "...-1, 7, 1000:2000": [(None, -1), (7, 7), (1000, 2000)],
    "100...199, 1...9": [(100, 199), (1, 9)],
}
INT_LENGTHS = {  # length text -> items (None = not given)
    "": None, "1": [(1, 1)], "3": [(3, 3)], "2...4": [(2, 4)], "...3": [(None, 3)], "2...": [(2, None)],
    "1, 3...5": [(1, 1), (3, 5)], "3, 1": [(3, 3), (1, 1)], "0...2": [(0, 2)], "5": [(5, 5)], "4": [(4, 4)],
}


def make_integer(rule, length_text, fmt):
    rule_items = INT_RULES[rule]
    length_items = INT_LENGTHS[length_text]
    fixed = fmt == "fixed"

    def go(cell, fail, n):
        from cutplace import fields, errors

        df = ff.data_format(fmt)
        field = ff.build_field("Integer", False, length_text, rule, df)
        stub = IntStub(fail=fail, value=n)
        assume(len(cell) > 0)
        if fixed:
            width = length_items[0][0]
            assume(len(cell) <= width)
            handed = ff.blank_strip(cell)
            assume(len(handed) > 0)
            assume(not ff.is_other_space(handed[0]) and not ff.is_other_space(handed[-1]))
        else:
            handed = cell
            if length_items is not None:
                assume(ff.in_items(length_items, len(cell)))  # the length guard itself is C03's subject
        if rule_items is not None:
            exp_in = ff.in_items(rule_items, n)
        elif length_items is not None:
            assume(-10 ** 9 < n < 10 ** 9)
            if fixed:
                exp_in = 1 <= text_len_of_int(n) <= length_items[0][0]
            else:
                assume(len(cell) == text_len_of_int(n))  # canonical text (the property is silent about '007', '+7')
                exp_in = ff.in_items(length_items, text_len_of_int(n))
        else:
            exp_in = -2 ** 31 <= n <= 2 ** 31 - 1
        exp = (not fail) and exp_in
        with patched(rf.smart_repr(), (fields, "int", stub)):
            try:
                result = field.validated(cell)
                accepted = True
            except errors.FieldValueError:
                accepted = False
                result = None
        # (unbounded cell: compare with ==, an index loop would enumerate every length)
        ok = accepted == exp and len(stub.seen) == 1 and (same(stub.seen[0], handed) if fixed else stub.seen[0] == cell) \
            and (not accepted or result == n)
        return ok, ("acc" if exp else ("nan" if fail else "out")), accepted, exp

    def mk(mode):
        def h(cell: str, fail: bool, n: int):
            ok, cls, _, _ = go(cell, fail, n)
            return ok, cls

        return h

    def replay(args):
        """no stub: the canonical text of n (or, for a parse failure, the cell itself) through the real int()"""
        from cutplace import errors
        n, fail = args["n"], args["fail"]
        df = ff.data_format(fmt)
        field = ff.build_field("Integer", False, length_text, rule, df)
        # first the cell of the counterexample itself, with the real int() as the parser the stub stood in for
        cell0 = args["cell"]
        core = cell0.strip(" ") if fixed else cell0
        if (rule_items is not None or length_items is None) and core and len(cell0) <= 60 \
                and not (fixed and (ff.is_other_space(core[0]) or ff.is_other_space(core[-1]))):
            try:
                n0 = int(core)
            except ValueError:
                n0 = None
            exp0 = n0 is not None and (ff.in_items(rule_items, n0) if rule_items is not None else -2 ** 31 <= n0 <= 2 ** 31 - 1)
            try:
                r0 = field.validated(cell0)
                acc0 = True
            except errors.FieldValueError as e:
                acc0 = False
                r0 = e
            if acc0 != exp0 or (acc0 and (r0 != n0 or type(r0) is not int)):
                return True, "Integer(length=%r, rule=%r, %s).validated(%r) -> %r although int() gives %r, expected accepted=%s" % (
                    length_text, rule, fmt, cell0, r0, n0, exp0), "integer-field"
        if fail:
            text = "x"
            exp = False
        else:
            text = str(n)
            # the stub decoupled text and value: also try the non-canonical literal of the same length as the cell
            cell = args["cell"]
            if not fixed and rule_items is not None and length_items is None and n >= 0 and len(cell) > len(text):
                padded = text.rjust(min(len(cell), 40), "0")
                try:
                    if (field.validated(padded) == n) != ff.in_items(rule_items, n):
                        return True, "Integer(rule=%r).validated(%r): the integer literal %r denotes %d" % (rule, padded, padded, n), "integer-field"
                except errors.FieldValueError as e:
                    if ff.in_items(rule_items, n):
                        return True, "Integer(rule=%r).validated(%r) rejected (%s) although the literal denotes %d" % (rule, padded, e, n), "integer-field"
            exp = ff.in_items(rule_items, n) if rule_items is not None else (
                (ff.in_items(length_items, len(text)) if not fixed else len(text) <= length_items[0][0])
                if length_items is not None else -2 ** 31 <= n <= 2 ** 31 - 1)
            if rule_items is not None and length_items is not None:
                if (not fixed and not ff.in_items(length_items, len(text))) or (fixed and len(text) > length_items[0][0]):
                    return False, "text %r violates the length guard (C03)" % text, "integer-field"
        try:
            r = field.validated(text)
            accepted = True
        except errors.FieldValueError as e:
            accepted = False
            r = e
        bad = accepted != exp or (accepted and (r != n or type(r) is not int))
        return bad, "Integer(length=%r, rule=%r, %s).validated(%r) -> %r, expected accepted=%s" % (
            length_text, rule, fmt, text, r, exp), "integer-field"

    return mk, replay


def make_integer_real(rule, length_text, maxlen, canonical=True):
    """the real int() on symbolic digit texts (canonical form: optional '-', no leading zero; with
    canonical=False leading zeros are allowed: '007' denotes 7)"""
    rule_items = INT_RULES[rule]
    length_items = INT_LENGTHS[length_text]

    def mk(mode):
        def h(cell: str):
            from cutplace import errors

            assume(1 <= len(cell) <= maxlen)
            neg = ord(cell[0]) == 45
            digits = cell[1:] if neg else cell
            assume(len(digits) >= 1)
            for c in digits:
                assume(48 <= ord(c) <= 57)
            if canonical:
                assume(len(digits) == 1 or ord(digits[0]) != 48)
                assume(not (neg and len(digits) == 1 and ord(digits[0]) == 48))
            if length_items is not None:
                assume(ff.in_items(length_items, len(cell)))
            n = 0
            for c in digits:
                n = n * 10 + (ord(c) - 48)
            if neg:
                n = -n
            df = ff.data_format("delimited")
            field = ff.build_field("Integer", False, length_text, rule, df)
            if rule_items is not None:
                exp = ff.in_items(rule_items, n)
            elif length_items is not None:
                exp = True
            else:
                exp = True  # |n| < 10**maxlen is far inside the 32 bit range
            with patched(rf.smart_repr()):
                try:
                    result = field.validated(cell)
                    accepted = True
                except errors.FieldValueError:
                    accepted = False
                    result = None
            return accepted == exp and (not accepted or result == n), ("acc" if exp else "out")

        return h

    return mk


# ------------------------------------------------------------------ Decimal
class FakeDecimalModule:
    """S-DEC: stands in for the module `decimal` inside cutplace.fields: Decimal(text) records the text and raises
    or returns a finite decimal k/10^s chosen by the harness"""

    def __init__(self, fail, value):
        self.fail = fail
        self.value = value
        self.seen = []
        self.InvalidOperation = decimal.InvalidOperation
        self.DecimalException = decimal.DecimalException

    def Decimal(self, text):
        self.seen.append(text)
        if self.fail:
            raise decimal.InvalidOperation("stub: not a number")
        return self.value

    def __getattr__(self, name):
        return getattr(decimal, name)


DEC_RULES = {"": [(Fraction(-9999999999999999999999999999999, 10 ** 12), Fraction(9999999999999999999999999999999, 10 ** 12))],
             "0...299.99": [(Fraction(0), Fraction(29999, 100))],
             "-1.5:20.25, 30:": [(Fraction(-3, 2), Fraction(81, 4)), (Fraction(30), None)],
             "...99.99": [(None, Fraction(9999, 100))]}
DEC_SPECIALS = ["NaN", "sNaN", "Infinity", "-Infinity"]
SEPARATORS = [(".", ""), (".", ","), (",", "."), (",", "")]


def translate_oracle(cell, dsep, tsep):
    """-> translated text or None (must be rejected before parsing)"""
    out = []
    seen_dec = False
    for c in cell:
        if ord(c) == ord(dsep):
            if seen_dec:
                return None
            out.append(".")
            seen_dec = True
        elif tsep != "" and ord(c) == ord(tsep):
            if seen_dec:
                return None
        else:
            out.append(c)
    return out


def make_decimal(rule, dsep, tsep, fmt, maxlen, scale=2, specials=False):
    items = DEC_RULES[rule]
    den = 10 ** scale

    def go(cell, fail, k, special=0):
        from cutplace import fields, errors, data

        props = []
        if fmt in ("delimited", "fixed"):
            props = [(data.KEY_DECIMAL_SEPARATOR, dsep), (data.KEY_THOUSANDS_SEPARATOR, tsep)]
        df = ff.data_format(fmt, None, props)
        field = ff.build_field("Decimal", False, "", rule, df)
        assume(1 <= len(cell) <= maxlen)
        assume(-10 ** 6 < k < 10 ** 6)
        if specials:
            assume(1 <= special <= len(DEC_SPECIALS))
        else:
            assume(special == 0)
        value = decimal.Decimal(k).scaleb(-scale)
        if special > 0:
            # the parser may also answer with a non-number: it is no 'number inside the rule's range'
            value = decimal.Decimal(DEC_SPECIALS[special - 1])
        fake = FakeDecimalModule(fail, value)
        exp_text = translate_oracle(cell, dsep, tsep)
        exp_in = False
        for lo, hi in items:
            ge = lo is None or k * lo.denominator >= lo.numerator * den
            le = hi is None or k * hi.denominator <= hi.numerator * den
            if ge and le:
                exp_in = True
        exp = exp_text is not None and (not fail) and exp_in and special == 0
        with patched(rf.smart_repr(), (fields, "decimal", fake)):
            try:
                result = field.validated(cell)
                accepted = True
            except errors.FieldValueError:
                accepted = False
                result = None
        ok = accepted == exp
        if exp_text is None:
            ok = ok and len(fake.seen) == 0
            cls = "badsep"
        else:
            ok = ok and len(fake.seen) == 1 and len(fake.seen[0]) == len(exp_text)
            if ok:
                seen = fake.seen[0]
                for i in range(len(exp_text)):
                    if ord(seen[i]) != ord(exp_text[i]):
                        ok = False
            cls = "acc" if exp else ("nan" if fail else ("special" if special else "out"))
        if accepted and ok:
            ok = result == value
        return ok, cls, accepted, exp

    def mk(mode):
        def h(cell: str, fail: bool, k: int, special: int):
            ok, cls, _, _ = go(cell, fail, k, special)
            return ok, cls

        return h

    def replay(args):
        """no stub: the real Decimal.  The stubbed Decimal() answered arbitrarily, so besides the cell itself its
        'digitised' variant (every character that is not a separator or sign becomes a digit) is tried: that is the
        input on which the real parser succeeds."""
        from cutplace import errors, data
        props = []
        if fmt in ("delimited", "fixed"):
            props = [(data.KEY_DECIMAL_SEPARATOR, dsep), (data.KEY_THOUSANDS_SEPARATOR, tsep)]
        df = ff.data_format(fmt, None, props)
        field = ff.build_field("Decimal", False, "", rule, df)
        cell0 = args["cell"]
        # the value the stub answered with (k / 10^scale), written the way the format writes numbers
        k_text = str(decimal.Decimal(args.get("k", 0)).scaleb(-scale)).replace(".", dsep)
        variants = [cell0, k_text, "".join(c if c in ".,-+" else "5" for c in cell0),
                    "".join(c if c in ".," else "1" for c in cell0)] + DEC_SPECIALS + ["inf", "-inf", "+Infinity", "nan"]
        last = ""
        for cell in variants:
            t = translate_oracle(cell, dsep, tsep)
            exp = False
            val = None
            if t is not None:
                try:
                    val = decimal.Decimal("".join(t))
                    if val.is_finite():
                        exp = any((lo is None or Fraction(val) >= lo) and (hi is None or Fraction(val) <= hi) for lo, hi in items)
                except decimal.InvalidOperation:
                    pass
            try:
                r = field.validated(cell)
                accepted = True
            except errors.FieldValueError as e:
                accepted = False
                r = e
            last = "Decimal(rule=%r, separators %r/%r, %s).validated(%r) -> %r, expected accepted=%s value=%r" % (
                rule, dsep, tsep, fmt, cell, r, exp, val)
            if accepted != exp or (accepted and r != val):
                return True, last, "decimal-field"
        return False, last, "decimal-field"

    return mk, replay


# ------------------------------------------------------------------ Choice / Constant / Text
CHOICE_RULES = {
    "ab,cd": ["ab", "cd"], "red, Green ,blue": ["red", "Green", "blue"], '"a b","x,y",z': ["a b", "x,y", "z"],
    "1,22,x3": ["1", "22", "x3"], "ä,ßü": ["ä", "ßü"], "'it''s',\"q\"": None,
    "'12\"', \"6'\", x": ['12"', "6'", "x"],
}


def make_choice(type_name, rule, choices, fmt):
    def go(cell):
        from cutplace import errors

        df = ff.data_format(fmt)
        field = ff.build_field(type_name, False, "", rule, df)
        assume(len(cell) > 0)
        if fmt == "fixed":
            assume(False)
        exp = False
        for c in choices:
            if cell == c:
                exp = True
        with patched(rf.smart_repr()):
            try:
                result = field.validated(cell)
                accepted = True
            except errors.FieldValueError:
                accepted = False
                result = None
        return accepted == exp and (not accepted or result == cell), ("acc" if exp else "out")

    def mk(mode):
        def h(cell: str):
            return go(cell)

        return h

    return mk


def make_text(fmt):
    def mk(mode):
        def h(cell: str):
            from cutplace import errors

            df = ff.data_format(fmt)
            field = ff.build_field("Text", False, "", "", df)
            assume(len(cell) > 0)
            with patched(rf.smart_repr()):
                try:
                    result = field.validated(cell)
                except errors.FieldValueError:
                    return False, "rejected"
            return result == cell, "acc"

        return h

    return mk


# ------------------------------------------------------------------ DateTime (S-STRP)
class FakeTimeModule:
    def __init__(self, fail):
        self.fail = fail
        self.seen = []
        self.token = object()

    def strptime(self, text, fmt):
        self.seen.append((text, fmt))
        if self.fail:
            raise ValueError("stub: does not match")
        return self.token

    def __getattr__(self, name):
        import time as _real_time
        return getattr(_real_time, name)


def strptime_format_oracle(rule):
    """left-to-right translation of a DD/MM/YYYY/YY/hh/mm/ss layout (independent of the implementation's replace chain)"""
    out = ""
    i = 0
    table = (("YYYY", "%Y"), ("DD", "%d"), ("MM", "%m"), ("YY", "%y"), ("hh", "%H"), ("mm", "%M"), ("ss", "%S"))
    while i < len(rule):
        if rule[i] == "%":
            out += "%%"
            i += 1
            continue
        for tok, rep in table:
            if rule.startswith(tok, i):
                out += rep
                i += len(tok)
                break
        else:
            out += rule[i]
            i += 1
    return out


DATE_RULES = ["DD.MM.YYYY", "YYYY-MM-DD hh:mm:ss", "MM/DD/YY", "hh:mm", "YYYYMMDD", "DD.MM.YY hh:mm", "ss.mm.hh",
              "YY%MM", "DD-MM-YYYY", "hhmmss"]


def make_datetime(rule, fmt, maxlen):
    exp_format = strptime_format_oracle(rule)
    has_time = any(t in rule for t in ("hh", "mm", "ss"))
    suffix = " 00:00:00"

    def go(cell, fail):
        from cutplace import fields, errors

        df = ff.data_format(fmt)
        field = ff.build_field("DateTime", False, "", rule, df)
        assume(1 <= len(cell))
        if maxlen is not None:
            assume(len(cell) <= maxlen)
        fake = FakeTimeModule(fail)
        strip_suffix = (fmt == "excel") and (not has_time) and len(cell) >= 9 and cell.endswith(suffix)
        exp_text = cell[:len(cell) - 9] if strip_suffix else cell
        with patched(rf.smart_repr(), (fields, "time", fake)):
            try:
                result = field.validated(cell)
                accepted = True
            except errors.FieldValueError:
                accepted = False
                result = None
        ok = accepted == (not fail) and len(fake.seen) == 1 and fake.seen[0][0] == exp_text \
            and fake.seen[0][1] == exp_format and (not accepted or result is fake.token)
        return ok, ("acc" if not fail else "rej") + ("-suffix" if strip_suffix else "")

    def mk(mode):
        def h(cell: str, fail: bool):
            return go(cell, fail)

        return h

    def replay(args):
        import time
        from cutplace import errors
        df = ff.data_format(fmt)
        field = ff.build_field("DateTime", False, "", rule, df)
        # the stubbed strptime answered arbitrarily: besides the cell itself, texts the real strptime accepts for this
        # layout (a midnight and a non-midnight instant), each also with the Excel suffix
        samples = [args["cell"]]
        for st in (time.struct_time((2003, 2, 1, 0, 0, 0, 5, 32, -1)), time.struct_time((1999, 12, 31, 23, 59, 58, 4, 365, -1))):
            t = time.strftime(exp_format, st)
            samples += [t, t + suffix]
        last = ""
        for cell in samples:
            text = cell[:-9] if (fmt == "excel" and not has_time and cell.endswith(suffix)) else cell
            try:
                exp_val = time.strptime(text, exp_format)
                exp = True
            except ValueError:
                exp_val, exp = None, False
            try:
                r = field.validated(cell)
                accepted = True
            except errors.FieldValueError as e:
                r, accepted = e, False
            last = "DateTime(rule=%r, %s).validated(%r) -> %r, expected %r via strptime(%r, %r)" % (
                rule, fmt, cell, r, exp_val, text, exp_format)
            if accepted != exp or (accepted and r != exp_val):
                return True, last, "datetime-field"
        return False, last, "datetime-field"

    return mk, replay


def make_datetime_pair(rule_a, rule_b, maxlen):
    """two DateTime fields with different layouts see the same cell one after the other: each must hand the cell to
    strptime with its own format (a value remembered for one field must never answer for another)"""
    fa, fb = strptime_format_oracle(rule_a), strptime_format_oracle(rule_b)

    def go(cell, fail_a, fail_b):
        from cutplace import fields, errors

        df = ff.data_format("delimited")
        a = ff.build_field("DateTime", False, "", rule_a, df, name="a")
        b = ff.build_field("DateTime", False, "", rule_b, df, name="b")
        assume(1 <= len(cell) <= maxlen)
        ok = True
        for field, fail, fmt in ((a, fail_a, fa), (b, fail_b, fb), (a, fail_a, fa)):
            fake = FakeTimeModule(fail)
            with patched(rf.smart_repr(), (fields, "time", fake)):
                try:
                    result = field.validated(cell)
                    accepted = True
                except errors.FieldValueError:
                    accepted = False
                    result = None
            if not (accepted == (not fail) and len(fake.seen) == 1 and fake.seen[0][0] == cell and fake.seen[0][1] == fmt
                    and (not accepted or result is fake.token)):
                ok = False
        return ok, ("a%s-b%s" % ("ok" if not fail_a else "no", "ok" if not fail_b else "no"))

    def mk(mode):
        def h(cell: str, fail_a: bool, fail_b: bool):
            return go(cell, fail_a, fail_b)

        return h

    def replay(args):
        import time
        from cutplace import errors
        cell = args["cell"]
        df = ff.data_format("delimited")
        a = ff.build_field("DateTime", False, "", rule_a, df, name="a")
        b = ff.build_field("DateTime", False, "", rule_b, df, name="b")
        # real strptime: pick texts each layout accepts and cross them over both fields, in both orders
        texts = [cell, "13.01.2003", "01.13.2003", "04.05.2006", "20061231", "120000"]
        bad = []
        for text in texts:
            for field, fmt in ((a, fa), (b, fb), (a, fa)):
                try:
                    exp = time.strptime(text, fmt)
                except ValueError:
                    exp = None
                try:
                    got = field.validated(text)
                except errors.FieldValueError:
                    got = None
                if got != exp:
                    bad.append("%s field %r: validated(%r) -> %r expected %r" % (field.field_name, fmt, text, got, exp))
        return bool(bad), "; ".join(bad[:3]) or "all agree", "datetime-field-pair"

    return mk, replay


# ------------------------------------------------------------------ RegEx / Pattern
def rx_parse(rule):
    """tiny regex subset -> list of alternatives, each a list of (atom, quant); atom: ('lit', c) | ('any',) |
    ('class', negated, [(lo, hi)]) | ('bol',) | ('eol',)"""
    alts = [[]]
    i = 0
    while i < len(rule):
        c = rule[i]
        if c == "|":
            alts.append([])
            i += 1
            continue
        if c == "^":
            atom = ("bol",)
            i += 1
        elif c == "$":
            atom = ("eol",)
            i += 1
        elif c == ".":
            atom = ("any",)
            i += 1
        elif c == "[":
            j = i + 1
            neg = False
            if rule[j] == "^":
                neg = True
                j += 1
            rngs = []
            while rule[j] != "]":
                if rule[j + 1] == "-" and rule[j + 2] != "]":
                    rngs.append((ord(rule[j]), ord(rule[j + 2])))
                    j += 3
                else:
                    rngs.append((ord(rule[j]), ord(rule[j])))
                    j += 1
            atom = ("class", neg, rngs)
            i = j + 1
        else:
            atom = ("lit", c)
            i += 1
        quant = ""
        if i < len(rule) and rule[i] in "*+?":
            quant = rule[i]
            i += 1
        alts[-1].append((atom, quant))
    return alts


def _fold(o):
    return o + 32 if 65 <= o <= 90 else o


def rx_atom(atom, text, pos):
    """does `atom` match the character at pos (ignoring ASCII case)?"""
    if pos >= len(text):
        return False
    o = ord(text[pos])
    if atom[0] == "any":
        return o != 10
    if atom[0] == "lit":
        return _fold(o) == _fold(ord(atom[1]))
    neg, rngs = atom[1], atom[2]
    hit = False
    for lo, hi in rngs:
        if lo <= o <= hi or lo <= _fold(o) <= hi or (97 <= o <= 122 and lo <= o - 32 <= hi):
            hit = True
    return hit != neg


def rx_seq(seq, k, text, pos):
    if k == len(seq):
        return True
    atom, quant = seq[k]
    if atom[0] == "bol":
        return (pos == 0 or ord(text[pos - 1]) == 10) and rx_seq(seq, k + 1, text, pos)
    if atom[0] == "eol":
        return (pos == len(text) or ord(text[pos]) == 10) and rx_seq(seq, k + 1, text, pos)
    if quant == "":
        return rx_atom(atom, text, pos) and rx_seq(seq, k + 1, text, pos + 1)
    if quant == "?":
        return (rx_atom(atom, text, pos) and rx_seq(seq, k + 1, text, pos + 1)) or rx_seq(seq, k + 1, text, pos)
    p = pos
    if quant == "+":
        if not rx_atom(atom, text, p):
            return False
        p += 1
    while True:
        if rx_seq(seq, k + 1, text, p):
            return True
        if rx_atom(atom, text, p):
            p += 1
        else:
            return False


def rx_match(alts, text):
    for seq in alts:
        if rx_seq(seq, 0, text, 0):
            return True
    return False


REGEX_RULES = ["a.*", "[0-9]+x?", "ab|cd", "a[bc]*d$", "x?y+", "[^a-c]z", "^q.$", "A[B-D]"]


def make_regex(rule, maxlen):
    alts = rx_parse(rule)

    def go(cell):
        from cutplace import errors

        df = ff.data_format("delimited")
        field = ff.build_field("RegEx", False, "", rule, df)
        assume(1 <= len(cell) <= maxlen)
        for c in cell:
            assume(ord(c) < 128)
        exp = rx_match(alts, cell)
        with patched(rf.smart_repr()):
            try:
                result = field.validated(cell)
                accepted = True
            except errors.FieldValueError:
                accepted = False
                result = None
        return accepted == exp and (not accepted or same(result, cell)), ("acc" if exp else "out")

    def mk(mode):
        def h(cell: str):
            return go(cell)

        return h

    return mk


def _ufold(o):
    """simple (one to one) case mapping as re.IGNORECASE applies it, for the alphabets used here"""
    return 223 if o == 7838 else _fold(o)


def glob_match(pat, text, pi=0, ti=0):
    """case-insensitive (one to one case mapping) whole-string glob: * ? and literal characters"""
    while pi < len(pat):
        p = pat[pi]
        if p == "*":
            for k in range(ti, len(text) + 1):
                if glob_match(pat, text, pi + 1, k):
                    return True
            return False
        if ti >= len(text):
            return False
        if p != "?" and _ufold(ord(p)) != _ufold(ord(text[ti])):
            return False
        pi += 1
        ti += 1
    return ti == len(text)


PATTERN_RULES = ["a*", "?b", "?\u00df", "a*c", "*", "x?z*", "\u00df*s"]


def make_pattern(rule, maxlen):
    letters = sorted(set(c for c in rule if c.isalpha()))
    alphabet = sorted(set([ord(c) for c in letters] + [ord(c.upper()) for c in letters if len(c.upper()) == 1] +
                          [ord("q"), ord("."), 10] + ([7838, ord("s"), ord("S")] if "\u00df" in rule else [])))

    def go(cell):
        from cutplace import errors

        df = ff.data_format("delimited")
        field = ff.build_field("Pattern", False, "", rule, df)
        assume(1 <= len(cell) <= maxlen)
        for c in cell:
            o = ord(c)
            okc = False
            for a in alphabet:
                if o == a:
                    okc = True
            assume(okc)
        exp = glob_match(rule, cell)
        with patched(rf.smart_repr()):
            try:
                result = field.validated(cell)
                accepted = True
            except errors.FieldValueError:
                accepted = False
                result = None
        return accepted == exp and (not accepted or same(result, cell)), ("acc" if exp else "out")

    def mk(mode):
        def h(cell: str):
            return go(cell)

        return h

    return mk, alphabet


# ------------------------------------------------------------------ native (concrete, no quantifier left)
def native_checks():
    from cutplace import errors
    failures = []
    n = 0
    samples = []
    for rule in DATE_RULES:
        n += 1
        df = ff.data_format("delimited")
        f = ff.build_field("DateTime", False, "", rule, df)
        if f.strptime_format != strptime_format_oracle(rule):
            failures.append(dict(key="datetime-format", what="DateTime rule %r translated to %r, expected %r" % (
                rule, f.strptime_format, strptime_format_oracle(rule)), args=dict(rule=rule)))
    # the documented value ranges of the place holders (docs/writing-an-icd.rst: DD, MM 1..12, YYYY 1..9999, hh 0..23,
    # mm 0..59, ss 0..61 "because of possible leap seconds", leading zeros ignored) and dates that exist
    calendar = [("hh:mm:ss", "23:59:59", True), ("hh:mm:ss", "23:59:60", True), ("hh:mm:ss", "23:59:61", True),
                ("hh:mm:ss", "23:59:62", False), ("hh:mm:ss", "24:00:00", False), ("hh:mm:ss", "00:60:00", False),
                ("hh:mm:ss", "0:0:0", True), ("hh:mm:ss", "7:5:3", True), ("hh:mm", "23:59", True), ("hh:mm", "23:60", False),
                ("DD.MM.YYYY", "29.02.2020", True), ("DD.MM.YYYY", "29.02.2021", False), ("DD.MM.YYYY", "29.02.1900", False),
                ("DD.MM.YYYY", "29.02.2000", True), ("DD.MM.YYYY", "31.04.2021", False), ("DD.MM.YYYY", "30.04.2021", True),
                ("DD.MM.YYYY", "31.12.9999", True), ("DD.MM.YYYY", "01.01.0001", True), ("DD.MM.YYYY", "1.1.2021", True),
                ("DD.MM.YYYY", "32.01.2021", False), ("DD.MM.YYYY", "00.01.2021", False), ("DD.MM.YYYY", "01.13.2021", False),
                ("DD.MM.YYYY", "01.00.2021", False), ("DD.MM.YYYY", "01.01.21", False), ("DD.MM.", "29.02.", True),
                ("DD.MM.", "28.02.", True), ("DD.MM.", "30.02.", False), ("DD.MM.", "31.12.", True), ("MM/DD", "02/29", True),
                ("YYYY-MM-DD hh:mm:ss", "2016-12-31 23:59:60", True), ("YYYY-MM-DD hh:mm:ss", "2021-02-29 00:00:00", False),
                ("YYYY-MM-DD", "2024-02-29", True), ("DD.MM.YY", "29.02.24", True), ("DD.MM.YY", "29.02.23", False),
                ("DD.MM.YYYY", "17.03.2021 ", False), ("DD.MM.YYYY", " 17.03.2021", False), ("DD.MM.YYYY", "17-03-2021", False)]
    for rule, cell, exp in calendar:
        n += 1
        try:
            f = ff.build_field("DateTime", False, "", rule, ff.data_format("delimited"))
            try:
                f.validated(cell)
                got = True
            except errors.FieldValueError:
                got = False
            if got != exp:
                failures.append(dict(key="datetime-calendar", what="DateTime(rule=%r).validated(%r): accepted=%s, documented=%s" % (
                    rule, cell, got, exp), args=dict(rule=rule, cell=cell)))
        except Exception as e:  # noqa
            failures.append(dict(key="datetime-calendar", what="DateTime(rule=%r).validated(%r) raised %s: %s" % (
                rule, cell, type(e).__name__, e), args=dict(rule=rule, cell=cell)))
    # Decimal cells through the real decimal module: the text handed to the parser is the cell with the thousands
    # separators removed and the decimal separator turned into '.', nothing else (exponents, signs, blanks stay)
    from cutplace import data as _data
    dec_texts = ["17", "17.25", "-0.5", "+3", "1e3", "5E+6", "25e-2", "1E+3", "1.5e3", "12 ", " 12", ".5", "5.", "1,234.5", "1.234,5",
                 "1,5e3", "1_0", "0x10", "abc", "1.2.3", "1,2,3", "--1", "1e", "e3", "\u0661\u0662", "\uff11", "1\u00a0000", "", "-", ".", ","]
    for dsep, tsep in SEPARATORS:
        df = ff.data_format("delimited", None, [(_data.KEY_DECIMAL_SEPARATOR, dsep), (_data.KEY_THOUSANDS_SEPARATOR, tsep)])
        f = ff.build_field("Decimal", False, "", "-100000...100000", df)
        for cell in dec_texts:
            if cell == "":
                continue
            n += 1
            tr = translate_oracle(cell, dsep, tsep)
            exp_value = None
            if tr is not None:
                try:
                    exp_value = decimal.Decimal("".join(tr))
                    if not exp_value.is_finite() or not (-100000 <= exp_value <= 100000):
                        exp_value = None
                except decimal.InvalidOperation:
                    exp_value = None
            try:
                got = f.validated(cell)
            except errors.FieldValueError:
                got = None
            except Exception as e:  # noqa
                failures.append(dict(key="decimal-native", what="Decimal(separators %r/%r).validated(%r) raised %s: %s" % (
                    dsep, tsep, cell, type(e).__name__, e), args=dict(cell=cell, dsep=dsep, tsep=tsep)))
                continue
            if (got is None) != (exp_value is None) or (got is not None and got != exp_value):
                failures.append(dict(key="decimal-native", what="Decimal(decimal separator %r, thousands separator %r).validated(%r) -> %r, "
                                     "expected %r" % (dsep, tsep, cell, got, exp_value), args=dict(cell=cell, dsep=dsep, tsep=tsep)))
    # RegEx / Pattern beyond ASCII through the real re module: case is ignored for every letter, \\w and \\d are Unicode-aware
    rx_cases = [("RegEx", "[a-z\u00e4\u00f6\u00fc]+$", "M\u00dcLLER", True), ("RegEx", "\\w+$", "M\u00fcller", True),
                ("RegEx", "\u00e9vry|\u00e5rhus|k\u00f6ln", "K\u00d6LN", True), ("RegEx", "stra\u00dfe", "STRA\u1e9eE", True),
                ("RegEx", "k\u00f6ln", "koln", False), ("RegEx", "\\d+$", "\u0661\u0662\u0663", True), ("RegEx", "a.c", "a\nc", False),
                ("RegEx", "^b", "a\nb", False), ("RegEx", "a$", "a\nb", True), ("RegEx", "ab", "xab", False), ("RegEx", "ab", "abx", True),
                ("Pattern", "k\u00f6ln*", "K\u00d6LN-Deutz", True), ("Pattern", "k?ln", "k\u00f6ln", True), ("Pattern", "k?ln", "koeln", False),
                ("Pattern", "*.txt", "A.TXT", True), ("Pattern", "a*", "ba", False), ("Pattern", "[ab]x", "bx", True), ("Pattern", "a?", "a\n", True)]
    for t, rule, cell, exp in rx_cases:
        n += 1
        try:
            f = ff.build_field(t, False, "", rule, ff.data_format("delimited"))
            try:
                f.validated(cell)
                got = True
            except errors.FieldValueError:
                got = False
            if got != exp:
                failures.append(dict(key="regex-native", what="%s(rule=%r).validated(%r): accepted=%s expected %s" % (t, rule, cell, got, exp),
                                     args=dict(type=t, rule=rule, cell=cell)))
        except Exception as e:  # noqa
            failures.append(dict(key="regex-native", what="%s(rule=%r).validated(%r) raised %s: %s" % (t, rule, cell, type(e).__name__, e),
                                 args=dict(type=t, rule=rule, cell=cell)))
    # result types through the real callees
    import time as _time
    cases = [("Integer", "", "0...99", "42", 42), ("Decimal", "", "0...99", "4.50", decimal.Decimal("4.50")),
             ("DateTime", "", "DD.MM.YYYY", "17.03.2021", _time.strptime("17.03.2021", "%d.%m.%Y")),
             ("Choice", "", "ab,cd", "cd", "cd"), ("Constant", "", "ab", "ab", "ab"), ("Text", "", "", "any", "any"),
             ("Pattern", "", "a*", "Abc", "Abc"), ("RegEx", "", "a.*", "Abc", "Abc")]
    for fmt in ff.FORMATS:
        for t, length, rule, cell, exp in cases:
            pad = 0 if t == "Constant" else 1  # a Constant's length must match its value
            for align in (("left", "right", "centre") if (fmt == "fixed" and t != "Constant") else ("left",)):
                n += 1
                stored = cell
                try:
                    df = ff.data_format(fmt)
                    if fmt == "fixed":
                        # left-aligned, right-aligned or centred in a field one (two) characters wider than the value
                        length = str(len(cell) + (2 if align == "centre" else pad))
                        stored = {"left": cell + " " * pad, "right": " " * pad + cell, "centre": " " + cell + " "}[align]
                    f = ff.build_field(t, False, length, rule, df)
                    got = f.validated(stored)
                    ok = got == exp and type(got) is type(exp)
                    what = "%s(rule=%r) under %s: validated(%r) -> %r (%s), expected %r" % (t, rule, fmt, stored, got,
                                                                                          type(got).__name__, exp)
                except Exception as e:  # noqa
                    ok = False
                    what = "%s(rule=%r) under %s: validated(%r) raised %s: %s" % (t, rule, fmt, stored, type(e).__name__, e)
                if not ok:
                    failures.append(dict(key="native-type", what=what, args=dict(type=t, fmt=fmt, cell=stored)))
                elif len(samples) < 2:
                    samples.append(dict(query="native/type", case=what))
    return dict(count=n, failures=failures, samples=samples)


# ------------------------------------------------------------------ plan
def build(tier, seed):
    rnd = random.Random(seed)
    q = []
    STUB_INT = ("S-INT fields.int -> ValueError or a symbolic integer; records the text", "S-FMT")
    # Integer
    combos = []
    for rule in INT_RULES:
        for lt in INT_LENGTHS:
            if rule and lt:
                continue  # both: the constructor checks consistency of literal limits (concrete, see native part / C09)
            combos.append((rule, lt, "delimited"))
    combos += [("0...99", "", "excel"), ("", "2...4", "ods"), ("", "3", "fixed"), ("-5...12, 100...", "4", "fixed"),
               ("", "1", "fixed"), ("", "5", "fixed"), ("", "", "ods")]
    if tier == "quick":
        combos = [c for c in combos if c[2] != "delimited" and c[1] != "5"] + rnd.sample([c for c in combos if c[2] == "delimited"], 9)
    for rule, lt, fmt in combos:
        if rule == "-5...12, 100..." and lt == "4":
            rule2 = "-5...12, 100...999"
            INT_RULES[rule2] = [(-5, 12), (100, 999)]
            rule = rule2
        mk, rp = make_integer(rule, lt, fmt)
        q.append(Query("C02/Integer/%s/len=%r/rule=%r" % (fmt, lt, rule), "integer", mk,
                       "Integer field (length %r, rule %r, %s): cell text unbounded, parsed value n unbounded (|n|<10^9 "
                       "when only a length is given)" % (lt, rule, fmt), budget_s=300 if tier == "quick" else 2400, per_path_timeout=60,
                       expect=("acc", "nan"), replay=rp, functions=FUNCS, stubs=STUB_INT))
    for rule, lt in (("0...99", ""), ("", "2...4"), ("", "")):
        q.append(Query("C02/Integer-real-int/len=%r/rule=%r" % (lt, rule), "integer-real", make_integer_real(rule, lt, 3 if tier == "quick" else 4),
                       "real int(): canonical digit texts up to %d characters" % (3 if tier == "quick" else 4), budget_s=600,
                       per_path_timeout=60, expect=("acc",), functions=FUNCS, stubs=("S-FMT",)))
    q.append(Query("C02/Integer-real-int/leading-zeros/rule='0...99'", "integer-real", make_integer_real("0...99", "", 4 if tier == "quick" else 5, canonical=False),
                   "real int(): digit texts with leading zeros ('007' denotes 7) up to %d characters" % (4 if tier == "quick" else 5), budget_s=600,
                   per_path_timeout=60, expect=("acc", "out"), functions=FUNCS, stubs=("S-FMT",)))
    # Decimal
    dec = []
    for rule in DEC_RULES:
        for dsep, tsep in SEPARATORS:
            dec.append((rule, dsep, tsep, "delimited"))
    ndel = len(dec)
    dec += [("0...299.99", ".", "", "excel"), ("0...299.99", ".", "", "ods"), ("...99.99", ".", "", "excel"), ("", ",", ".", "fixed")]
    if tier == "quick":
        dec = rnd.sample(dec[:ndel], 4) + [("...99.99", ".", ",", "delimited"), ("-1.5:20.25, 30:", ",", ".", "delimited")] + dec[ndel:]
    for rule, dsep, tsep, fmt in dec:
        if fmt == "fixed":
            continue  # fixed: blank padding is C03's subject; Decimal under fixed is exercised natively below
        mk, rp = make_decimal(rule, dsep, tsep, fmt, 4 if tier == "quick" else 5)
        q.append(Query("C02/Decimal/%s/rule=%r/sep=%s%s" % (fmt, rule, dsep, tsep or "-"), "decimal", mk,
                       "Decimal field (rule %r, decimal separator %r, thousands separator %r, %s): every cell up to %d "
                       "characters, parsed value k/100 for |k|<10^6" % (rule, dsep, tsep, fmt, 4 if tier == "quick" else 5),
                       budget_s=600 if tier == "quick" else 2400, per_path_timeout=60, expect=("acc", "nan", "out") if rule else ("acc", "nan"),
                       replay=rp, functions=FUNCS,
                       stubs=("S-DEC fields.decimal.Decimal -> InvalidOperation or a symbolic finite decimal; records the text", "S-FMT")))
    for rule, dsep, tsep, fmt in (("...99.99", ".", ",", "delimited"), ("-1.5:20.25, 30:", ".", "", "delimited"), ("", ".", "", "excel")):
        mk, rp = make_decimal(rule, dsep, tsep, fmt, 2, specials=True)
        q.append(Query("C02/Decimal-specials/%s/rule=%r" % (fmt, rule), "decimal-specials", mk,
                       "Decimal field (rule %r, %s): the parser answers NaN / sNaN / Infinity / -Infinity: never accepted" % (rule, fmt),
                       budget_s=300, expect=("special", "nan"), replay=rp, functions=FUNCS, stubs=("S-DEC with special values", "S-FMT")))
    # Choice / Constant / Text
    for rule, choices in CHOICE_RULES.items():
        if choices is None:
            continue
        for fmt in (("delimited",) if tier == "quick" else ("delimited", "excel", "ods")):
            q.append(Query("C02/Choice/%s/%r" % (fmt, rule), "choice", make_choice("Choice", rule, choices, fmt),
                           "Choice field %r (%s): every cell, no length bound" % (rule, fmt), budget_s=300,
                           expect=("acc", "out"), functions=FUNCS, stubs=("S-FMT",)))
    for rule, const in (("ab", "ab"), ('"x y"', "x y"), ("42", "42"), ("1.5", "1.5"), ("Ab", "Ab")):
        q.append(Query("C02/Constant/%r" % rule, "constant", make_choice("Constant", rule, [const], "delimited"),
                       "Constant field %r: every cell, no length bound" % rule, budget_s=300, expect=("acc", "out"),
                       functions=FUNCS, stubs=("S-FMT",)))
    for fmt in ("delimited", "excel", "ods"):
        q.append(Query("C02/Text/%s" % fmt, "text", make_text(fmt), "Text field (%s): every cell, no length bound" % fmt,
                       budget_s=120, expect=("acc",), functions=FUNCS, stubs=("S-FMT",)))
    # DateTime
    rules = DATE_RULES if tier == "thorough" else DATE_RULES[:5]
    for rule in rules:
        for fmt in ("delimited", "excel"):
            has_time = any(t in rule for t in ("hh", "mm", "ss"))
            bound = 12 if (fmt == "excel" and not has_time) else None
            mk, rp = make_datetime(rule, fmt, bound)
            exp = ("acc", "rej") + (("acc-suffix", "rej-suffix") if (fmt == "excel" and not has_time) else ())
            q.append(Query("C02/DateTime/%s/%r" % (fmt, rule), "datetime", mk,
                           "DateTime field %r (%s): every cell (%s); what reaches strptime and what comes "
                           "back" % (rule, fmt, "no length bound" if bound is None else "up to %d characters" % bound), budget_s=300, expect=exp, replay=rp,
                           functions=FUNCS, stubs=("S-STRP fields.time.strptime -> ValueError or an opaque token; records (text, format)", "S-FMT")))
    for ra, rb in (("DD.MM.YYYY", "MM.DD.YYYY"), ("YYYYMMDD", "hhmmss")):
        mk, rp = make_datetime_pair(ra, rb, 12)
        q.append(Query("C02/DateTime-pair/%r+%r" % (ra, rb), "datetime-pair", mk,
                       "two DateTime fields %r and %r validate the same cell (any text up to 12 characters) in turn" % (ra, rb),
                       budget_s=300, replay=rp, functions=FUNCS, expect=("aok-bok", "ano-bno"),
                       stubs=("S-STRP", "S-FMT")))
    # RegEx / Pattern
    for rule in (REGEX_RULES if tier == "thorough" else REGEX_RULES[:4]):
        ml = 3 if tier == "quick" else 5
        q.append(Query("C02/RegEx/%r" % rule, "regex", make_regex(rule, ml),
                       "RegEx field %r: every ASCII cell up to %d characters against an independent matcher" % (rule, ml),
                       budget_s=900, per_path_timeout=120, expect=("acc", "out"), functions=FUNCS, stubs=("S-FMT",)))
    for rule in (PATTERN_RULES if tier == "thorough" else PATTERN_RULES[:3]):
        ml = 3 if tier == "quick" else 4
        mk, alphabet = make_pattern(rule, ml)
        q.append(Query("C02/Pattern/%r" % rule, "pattern", mk,
                       "Pattern field %r: every cell up to %d characters over the alphabet %r (solver-enumerated: "
                       "fnmatch's (?s:...)\\Z is realised)" % (rule, ml, [chr(a) for a in alphabet]),
                       budget_s=900, per_path_timeout=120, expect=("acc",), functions=FUNCS, stubs=("S-FMT",)))
    return dict(queries=q, native=native_checks, warm=("strip", "lower"),
                assumptions=["Python's int(), decimal.Decimal() and time.strptime() accept exactly the literals the "
                             "property calls 'integer literal', 'number' and 'real calendar date' (stubbed: S-INT, S-DEC, "
                             "S-STRP)", "length-derived integer ranges: canonical texts only (len(cell) == len(str(n)))"],
                outside_claim=["calendar validity itself (time.strptime)", "Pattern beyond the explicit alphabet",
                               "regular expressions outside the subset", "Decimal values with |k| >= 10^6 / other scales"],
                exhaustive=False)


def replay_case(case):
    for tier in ("quick", "thorough"):
        for q in build(tier, case.get("seed", 0))["queries"]:
            if q.qid == case.get("query") and q.replay:
                rep, detail, _ = q.replay(case["args"])
                return rep, detail
    return False, "no such query (or a query whose native harness run is the replay)"
