"""C04  A row is accepted iff all cells and row checks pass; errors name the culprit.  (DESIGN.md section 6, C04)

ROWFLOW, on_error='yield': real Cid, real validio.rows/Reader.validate_row, S-ROWS for the container.
Symbolic: header 0..2, up to 6 cells (any Unicode, len <= 2).  Concrete per query: field list, row count, row widths."""
import itertools
import random

from vlib.engine import Query, assume
from vlib.envstubs import patched
from vlib import rowflow as rf

FUNCS = ("cutplace.validio.Reader.rows", "cutplace.validio.BaseValidator.validate_row", "cutplace.validio.rows",
         "cutplace.fields.AbstractFieldFormat.validated", "cutplace.fields.AbstractFieldFormat.validate_length",
         "cutplace.fields.AbstractFieldFormat.validate_empty", "cutplace.fields.ChoiceFieldFormat.validated_value",
         "cutplace.errors.CutplaceError.prepend_message", "cutplace.errors.Location.__str__")
STUBS = ("S-ROWS container readers yield the harness rows", "S-FMT")
NSYM = 6


def layout(keys, widths, sym_positions):
    """-> function(cells) -> rows; positions not in sym_positions get a concrete accepted value"""
    n = len(keys)

    def rows_of(cells):
        rows = []
        k = 0
        for r, w in enumerate(widths):
            row = []
            for j in range(w):
                if (r, j) in sym_positions:
                    row.append(cells[k])
                    k += 1
                else:
                    row.append(rf.FIELD_POOL[keys[j]].sample_ok if j < n else "extra")
            rows.append(row)
        return rows

    return rows_of


def make(keys, widths, sym_positions, veto):
    rows_of = layout(keys, widths, sym_positions)
    names = rf.field_names(keys)
    checks = ()
    veto_fn = None
    if veto:
        checks = ("c,veto,Veto,%s %s" % (names[0], veto),)
        veto_fn = lambda row: row[0] == veto  # noqa
    text = rf.cid_text(keys, checks=checks)

    def run(header, cells):
        from cutplace import validio

        rf.veto_check_class()
        rows = rows_of(cells)
        cid = rf.build_cid(text)
        rf.set_header(cid, header)
        with patched(rf.smart_repr(), *rf.srows_patches()):
            result = list(validio.rows(cid, rows, on_error="yield"))
            exp = rf.ref_read(rows, header, None, keys, veto_fn)
            if not rf.same_output(rf.observe(result), exp):
                return False, "mismatch"
            for r, e in zip(result, exp):
                if e[0] == "err":
                    s = str(r)
                    if "<io>" not in s or ("R%dC%d" % (e[1] + 1, e[2] + 1)) not in s:
                        return False, "location-text"
                    if e[3] is not None and e[3] != "<check>" and e[3] not in s:
                        return False, "field-name"
        return True, rf.classify(exp)

    def mk(mode):
        def h(header: int, c0: str, c1: str, c2: str, c3: str, c4: str, c5: str):
            assume(0 <= header <= 2)
            cells = [c0, c1, c2, c3, c4, c5]
            for c in cells[:len(sym_positions)]:
                assume(len(c) <= 2)
            return run(header, cells)

        return h

    def replay(args):
        from cutplace import validio, interface

        rf.veto_check_class()
        cells = [args["c%d" % i] for i in range(NSYM)]
        rows = rows_of(cells)
        cid = interface.create_cid_from_string(text)
        rf.set_header(cid, args["header"])
        src = rf.real_source_or_rows(cid, rows)
        how = "real csv text"
        ctx = patched()
        if src is None:
            src, how, ctx = rows, "S-ROWS (cells do not survive the csv module)", patched(*rf.srows_patches())
        with ctx:
            try:
                result = list(validio.rows(cid, src, on_error="yield"))
            except Exception as e:  # noqa
                return True, "rows() raised %s: %s for rows %r (%s)" % (type(e).__name__, e, rows, how), "row-verdict"
        exp = rf.ref_read(rows, args["header"], None, keys, veto_fn)
        got = rf.observe(result)
        bad = not rf.same_output(got, exp)
        detail = "fields %r header %d rows %r via %s: got %r expected %r" % (keys, args["header"], rows, how, got,
                                                                             [e[:3] for e in exp])
        if not bad:
            for r, e in zip(result, exp):
                if e[0] == "err":
                    s = str(r)
                    if "R%dC%d" % (e[1] + 1, e[2] + 1) not in s or (
                            e[3] not in (None, "<check>") and e[3] not in s):
                        bad = True
                        detail += " | message %r lacks location/field" % s
        return bad, detail, "row-verdict"

    return mk, replay


def make_twice(nrows):
    """the same Reader iterated twice over a re-readable source, with an IsUnique check: the second pass accepts and
    rejects exactly the rows the first pass did (a row is judged by the data set being read, not by earlier passes)"""
    keys = ("ch", "t01")
    names = rf.field_names(keys)
    text = rf.cid_text(keys, checks=("c,uniq,IsUnique,%s" % names[0],))

    def go(header, cells):
        from cutplace import validio, errors

        rows = [[cells[2 * r], cells[2 * r + 1]] for r in range(nrows)]
        for r in range(nrows):
            assume(len(rows[r][0]) == 1 and 97 <= ord(rows[r][0]) <= 99)
            assume(len(rows[r][1]) <= 2)
        cid = rf.build_cid(text)
        rf.set_header(cid, header)
        seen = {}
        exp = []
        for i, row in enumerate(rows, 1):
            if i <= header:
                continue
            if not rf.FIELD_POOL["ch"].ok(row[0]):
                exp.append(("err", i - 1, 0))
            elif not rf.FIELD_POOL["t01"].ok(row[1]):
                exp.append(("err", i - 1, 1))
            else:
                dup = False
                for kx in seen:
                    if kx == row[0]:
                        dup = True
                if dup:
                    exp.append(("err", i - 1, 0))
                else:
                    seen[row[0]] = True
                    exp.append(("row", row))
        with patched(rf.smart_repr(), *rf.srows_patches()):
            got, raised = rf.run_api(cid, rf.CountingRows(rows), "reader-twice")
        ok = raised is None and rf.same_output(got, [e + (None,) if e[0] == "err" else e for e in exp + exp])
        return ok, rf.classify(exp), rows, got, exp

    def mk(mode):
        def h(header: int, c0: str, c1: str, c2: str, c3: str, c4: str, c5: str):
            assume(0 <= header <= 1)
            ok, cls, _, _, _ = go(header, [c0, c1, c2, c3, c4, c5])
            return ok, cls

        return h

    def replay(args):
        ok, cls, rows, got, exp = go(args["header"], [args["c%d" % i] for i in range(6)])
        return (not ok), "one Reader iterated twice over %r (IsUnique on the first field): got %r, expected twice %r" % (
            rows, got, exp), "row-verdict-second-pass"

    return mk, replay


def shapes(tier, rnd):
    field_lists = [("t12",), ("ch", "t01"), ("t12", "ch", "t1")]
    if tier == "thorough":
        field_lists += [("t2", "t01", "ch", "t12"), ("t1", "t12", "t01", "ch", "t2"), ("t01",), ("ch", "ch")]
    out = []
    for keys in field_lists:
        n = len(keys)
        maxrows = 3 if tier == "quick" else 5
        for nrows in range(0, maxrows + 1):
            pats = list(itertools.product((n - 1, n, n + 1), repeat=nrows))
            pats = [p for p in pats if all(w >= 0 for w in p)]
            full = tuple([n] * nrows)
            chosen = [full] + [p for p in pats if p != full]
            cap = 3 if tier == "quick" else 8
            chosen = [full] + rnd.sample(chosen[1:], min(cap - 1, len(chosen) - 1)) if len(chosen) > 1 else [full]
            for widths in chosen:
                positions = [(r, j) for r, w in enumerate(widths) for j in range(w)]
                nsym = min(NSYM if tier == "quick" else NSYM, len(positions))
                # rotate the symbolic cells over all positions
                rots = max(1, (len(positions) + nsym - 1) // nsym) if nsym else 1
                for rot in range(rots):
                    sym = set(positions[rot * nsym:(rot + 1) * nsym]) if nsym else set()
                    if rot and len(sym) < nsym:
                        sym = set(positions[-nsym:])
                    for veto in ((None, "ab" if keys[0] == "t12" else None) if nrows else (None,)):
                        if veto is None or keys[0] == "t12":
                            out.append((keys, widths, frozenset(sym), veto))
    # dedupe
    seen = set()
    res = []
    for s in out:
        if s not in seen:
            seen.add(s)
            res.append(s)
    return res


HOSTILE_CELLS = ["%", "25%", "%s", "%d", "%(x)s", "100% organic", "{0}", "{", "}", "\\", "'", '"', "\x00", "\n", "\u20ac", "%%", "a" * 300]


def native_hostile_rows():
    """concrete: rows whose items contain formatting directives, quotes, control characters: a row with a wrong item
    count, a rejected cell or a rejecting row check is reported as an error naming row and column whatever its items
    are (the solver queries treat message formatting as opaque: S-FMT).  Exploration, not a solver verdict."""
    from cutplace import validio, errors, interface
    failures = []
    n = 0
    keys = ("t12", "ch", "t01")
    text = rf.cid_text(keys, checks=("c,u,IsUnique,%s" % rf.field_names(keys)[0],))
    for h in HOSTILE_CELLS:
        tables = {
            "too few items": [["ab", "a", ""], ["ab", h]],
            "too many items": [["ab", "a", ""], ["xy", "a", "", h, "more " + h]],
            "only one item": [[h]],
            "no items": [[]],
            "rejected cell": [["ab", h, ""]],
            "rejected first cell": [[h + "toolong", "a", ""]],
            "duplicate": [[h[:2] or "x", "a", ""], [h[:2] or "x", "b", ""]],
        }
        for what, rows in tables.items():
            for mode in ("yield", "raise", "continue"):
                n += 1
                try:
                    cid = interface.create_cid_from_string(text)
                    with patched(*rf.srows_patches()):
                        try:
                            got = list(validio.rows(cid, rows, on_error=mode))
                            raised = None
                        except errors.DataError as e:
                            got, raised = None, e
                    errs = [r for r in (got or []) if isinstance(r, errors.DataError)] + ([raised] if raised is not None else [])
                    for e in errs:
                        if "(R" not in str(e):
                            failures.append(dict(key="row-verdict", what="%s with item %r in mode %s: the error text names no row: %s" % (
                                what, h, mode, e), args=dict(case=what, item=h, mode=mode)))
                    last_ok = len(rows[-1]) == 3 and rf.FIELD_POOL["t12"].ok(rows[-1][0]) and rf.FIELD_POOL["ch"].ok(rows[-1][1]) \
                        if what != "duplicate" else False
                    if what == "duplicate" and not rf.FIELD_POOL["t12"].ok(rows[0][0]):
                        continue
                    if mode == "yield" and not last_ok and not errs:
                        failures.append(dict(key="row-verdict", what="%s with item %r: no error was reported (%r)" % (what, h, got),
                                             args=dict(case=what, item=h, mode=mode)))
                    if mode == "raise" and not last_ok and raised is None:
                        failures.append(dict(key="row-verdict", what="%s with item %r in raise mode: nothing was raised" % (what, h),
                                             args=dict(case=what, item=h, mode=mode)))
                except Exception as e:  # noqa
                    failures.append(dict(key="row-verdict", what="%s with item %r in mode %s raised %s: %s" % (
                        what, h, mode, type(e).__name__, e), args=dict(case=what, item=h, mode=mode)))
    return dict(count=n, failures=failures, samples=[])


def native_cid_paths():
    """concrete: a CID given as a path is the CID stored there *now*: rows are judged by the declaration on disk at
    the time of the call, and two validations naming the same CID path do not share check state"""
    import io
    import os
    import shutil
    import tempfile
    from cutplace import validio, errors
    failures = []
    n = 0
    d = tempfile.mkdtemp(prefix="c04cid")
    try:
        cid_path = os.path.join(d, "cid.csv")
        v1 = "d,format,delimited\nf,a,,,1\nf,b,,X,...1\nc,u,IsUnique,a\n"
        v2 = "d,format,delimited\nf,a,,,1\nf,b,,X,...1\nf,c,,,2\n"
        data2 = "x,y\nz,\n"
        data3 = "x,y,zz\nz,,q\n"
        for version, text, expected in ((1, v1, {data2: [True, True], data3: [False, False]}),
                                        (2, v2, {data2: [False, False], data3: [True, False]}),
                                        (3, v1, {data2: [True, True], data3: [False, False]})):
            with open(cid_path, "w") as f:
                f.write(text)
            for data, exp in expected.items():
                n += 1
                try:
                    got = [not isinstance(r, errors.DataError) for r in validio.rows(cid_path, io.StringIO(data, newline=""), on_error="yield")]
                except Exception as e:  # noqa
                    got = "%s: %s" % (type(e).__name__, e)
                if got != exp:
                    failures.append(dict(key="row-verdict", what="CID file (version %d: %r) with data %r: accepted %r, expected %r" % (
                        version, text, data, got, exp), args=dict(version=version)))
        # two readers naming the same CID path, consumed in turns: each judges its own data set
        n += 1
        with open(cid_path, "w") as f:
            f.write(v1)
        ra = validio.rows(cid_path, io.StringIO("x,\ny,\n", newline=""), on_error="yield")
        rb = validio.rows(cid_path, io.StringIO("x,\ny,\n", newline=""), on_error="yield")
        got = []
        try:
            for a, b in zip(ra, rb):
                got.append((not isinstance(a, errors.DataError), not isinstance(b, errors.DataError)))
        except Exception as e:  # noqa
            got = "%s: %s" % (type(e).__name__, e)
        if got != [(True, True), (True, True)]:
            failures.append(dict(key="row-verdict", what="two readers on one CID path with equal data, consumed in turns: accepted %r" % (got,),
                                 args={}))
    finally:
        shutil.rmtree(d, ignore_errors=True)
    return dict(count=n, failures=failures, samples=[])


def native_real_csv_rows():
    """concrete: every row the csv module delivers is judged -- a blank line is a row with no items (rejected for its
    item count and counted), a row of empty items under a CID whose fields may all be empty is accepted and returned"""
    import csv
    import io
    from cutplace import interface, validio, errors
    failures = []
    n = 0
    cases = [("d,format,delimited\nf,a,,,1\nf,b,,X,...1\n", "x,y\n\nz,\n"), ("d,format,delimited\nf,a,,,1\nf,b,,X,...1\n", "\nx,y\n"),
             ("d,format,delimited\nf,a,,,1\nf,b,,X,...1\n", "x,y\n\n\n"), ("d,format,delimited\nf,a,,X,...1\nf,b,,X,...1\n", "x,y\n,\nz,\n,\n"),
             ("d,format,delimited\nf,a,,X,...1\n", 'x\n""\ny\n'), ("d,format,delimited\nf,a,,X,...1\nf,b,,X\nf,c,,X\n", ",,\nx,,\n,,\n"),
             ("d,format,delimited\nd,header,1\nf,a,,X,...1\nf,b,,X\n", "h1,h2\n,\nx,\n\n,\n")]
    for cid_text, data in cases:
        n += 1
        cid = interface.create_cid_from_string(cid_text)
        header = cid.data_format.header
        rows = list(csv.reader(io.StringIO(data, newline=""), strict=True))
        nfields = len(cid.field_names)
        exp = []
        for i, row in enumerate(rows):
            if i < header:
                continue
            ok_row = len(row) == nfields and all(
                (cell != "" or f.is_allowed_to_be_empty) and (f.length.upper_limit is None or len(cell) <= f.length.upper_limit)
                for cell, f in zip(row, cid.field_formats))
            exp.append(("row", row) if ok_row else ("err", i, 0 if len(row) != nfields else None))
        try:
            reader = validio.Reader(cid, io.StringIO(data, newline=""), on_error="yield")
            got = list(reader.rows())
            counts = (reader.accepted_rows_count, reader.rejected_rows_count)
        except Exception as e:  # noqa
            failures.append(dict(key="row-verdict", what="CID %r data %r raised %s: %s" % (cid_text, data, type(e).__name__, e), args=dict(data=data)))
            continue
        obs = [("err", r.location.line, r.location.cell) if isinstance(r, errors.DataError) else ("row", r) for r in got]
        same = len(obs) == len(exp) and all(o[0] == e[0] and (o[1] == e[1]) and (e[0] == "row" or e[2] is None or o[2] == e[2])
                                             for o, e in zip(obs, exp))
        exp_counts = (sum(1 for e in exp if e[0] == "row"), sum(1 for e in exp if e[0] == "err"))
        if not same or counts != exp_counts:
            failures.append(dict(key="row-verdict", what="CID %r, data %r (csv rows %r): produced %r with counters %r, expected %r with counters %r" % (
                cid_text, data, rows, obs, counts, exp, exp_counts), args=dict(data=data)))
    return dict(count=n, failures=failures, samples=[])


def build(tier, seed):
    rnd = random.Random(seed)
    queries = []
    for keys, widths, sym, veto in shapes(tier, rnd):
        mk, rp = make(keys, widths, sym, veto)
        qid = "C04/%s/w=%s/sym=%s%s" % ("+".join(keys), ",".join(map(str, widths)) or "-",
                                         "".join("%d%d" % p for p in sorted(sym)) or "-", "/veto" if veto else "")
        queries.append(Query(qid, "rowflow-yield", mk,
                             "fields %r, row widths %r, symbolic cells at %r (any Unicode, len<=2), header 0..2%s"
                             % (keys, widths, sorted(sym), ", vetoing row check" if veto else ""),
                             budget_s=240 if tier == "quick" else 900, per_path_timeout=60, replay=rp, functions=FUNCS,
                             stubs=STUBS))
    for nrows in ((2,) if tier == "quick" else (2, 3)):
        mk, rp = make_twice(nrows)
        queries.append(Query("C04/reader-twice/unique/rows=%d" % nrows, "rowflow-twice", mk,
                             "fields ch+t01 with IsUnique, %d rows (key a/b/c, value len<=2), header 0..1, the same Reader "
                             "iterated twice" % nrows, budget_s=600, per_path_timeout=60, replay=rp, functions=FUNCS, stubs=STUBS))
    def native():
        # a row whose key tuple differs from every earlier one passes the IsUnique row check (concrete composite keys
        # that collide under joining / rendering / normalisation; exploration, see props/c05.py)
        from props.c05 import native_key_collisions
        res = native_key_collisions("row-verdict")
        more = native_hostile_rows()
        paths = native_cid_paths()
        blanks = native_real_csv_rows()
        paths = dict(count=paths["count"] + blanks["count"], failures=paths["failures"] + blanks["failures"])
        return dict(count=res["count"] + more["count"] + paths["count"], failures=res["failures"] + more["failures"] + paths["failures"],
                    samples=[])

    return dict(queries=queries, native=native,
                assumptions=["rows reach validio exactly as the container reader yields them (S-ROWS)",
                             "per-field verdicts of the pool fields (Text with length, Choice) are the simple predicates "
                             "of vlib/rowflow.FIELD_POOL; per-type semantics is C02/C03's subject"],
                outside_claim=["the real csv / ODS / Excel container readers (C13 covers fixed-width)",
                               "tables above the bounds; more than 6 symbolic cells per query"],
                exhaustive=False)


def replay_case(case):
    for tier in ("quick", "thorough"):
        for q in build(tier, case.get("seed", 0))["queries"]:
            if q.qid == case.get("query"):
                rep, detail, _ = q.replay(case["args"])
                return rep, detail
    return False, "no such query"
