"""C07  Header rows are skipped; the validation limit bounds validation, not data.  (DESIGN.md section 6, C07)"""
import random

from vlib.engine import Query, assume
from vlib.envstubs import patched
from vlib import rowflow as rf

FUNCS = ("cutplace.validio.Reader.rows", "cutplace.validio.rows", "cutplace.validio.validate",
         "cutplace.validio.BaseValidator.validate_row", "cutplace.applications.CutplaceApp.set_options")
STUBS = ("S-ROWS container readers yield the harness rows", "S-FMT")
APIS = ("rows-yield", "rows-continue", "rows-raise", "validate", "reader-twice")


def make(keys, nrows, api):
    text = rf.cid_text(keys)
    n = len(keys)

    def rows_of(cells):
        return [[cells[r * n + j] for j in range(n)] for r in range(nrows)]

    def check(header, has_limit, limit, cells, replaying=False):
        rows = rows_of(cells)
        lim = limit if has_limit else None
        cid = rf.build_cid(text)
        rf.set_header(cid, header)
        src = rf.CountingRows(rows)
        with patched(rf.smart_repr(), *rf.srows_patches()):
            got, raised = rf.run_api(cid, src, api, lim)
        exp_yield = rf.ref_read(rows, header, lim, keys)
        exp_items, exp_raise = rf.expected_api(exp_yield, api)
        ok = True
        why = ""
        if api == "validate":
            if (raised is None) != (exp_raise is None):
                ok, why = False, "validate raised=%r expected=%r" % (raised, exp_raise)
            elif raised is not None and (raised[1], raised[2]) != exp_raise:
                ok, why = False, "validate reported %r expected %r" % (raised, exp_raise)
            elif raised is None and lim is not None and src.pulled > header + lim:
                ok, why = False, "validate pulled %d rows with header %d limit %d" % (src.pulled, header, lim)
        else:
            if not rf.same_output(got, exp_items):
                ok, why = False, "%s produced %r expected %r" % (api, got, [e[:3] for e in exp_items])
            elif (raised is None) != (exp_raise is None) or (raised is not None and (raised[1], raised[2]) != exp_raise):
                ok, why = False, "%s raised %r expected %r" % (api, raised, exp_raise)
        cls = ("lim" if has_limit else "nolim") + "-" + rf.classify(exp_yield)
        if replaying:
            return ok, "fields %r header %d limit %r rows %r: %s" % (keys, header, lim, rows, why)
        return ok, cls

    def mk(mode):
        def h(header: int, has_limit: bool, limit: int, c0: str, c1: str, c2: str, c3: str, c4: str, c5: str):
            assume(0 <= header <= 3)
            assume(0 <= limit <= nrows + 1)
            cells = [c0, c1, c2, c3, c4, c5]
            for c in cells[:nrows * n]:
                assume(len(c) <= 2)
            return check(header, has_limit, limit, cells)

        return h

    def replay(args):
        cells = [args["c%d" % i] for i in range(6)]
        ok, detail = check(args["header"], args["has_limit"], args["limit"], cells, replaying=True)
        return (not ok), detail + " (native run; rows fed through S-ROWS, everything else real)", "header-limit"

    return mk, replay


def make_until():
    """--until N mapping in CutplaceApp.set_options (argparse's own parsing stubbed by S-ARGS)"""

    def mk(mode):
        def h(n: int):
            import argparse
            from cutplace import applications

            ns = argparse.Namespace(is_create_sql=False, is_gui=False, log_level="info", plugins_folder=None,
                                    validate_until=n, cid_path="cid.csv", data_paths=["data.csv"])
            app = applications.CutplaceApp()
            seen = []
            with patched((argparse.ArgumentParser, "parse_args", lambda self, argv=None: ns),
                         (argparse.ArgumentParser, "_print_message", lambda self, message, file=None: None),
                         (applications.CutplaceApp, "set_cid_from_path", lambda self, path: seen.append(path))):
                try:
                    app.set_options(["cutplace", "--until", "N", "cid.csv", "data.csv"])
                    code = None
                except SystemExit as e:
                    code = e.code
            if n < -1:
                return code == 2, "exit2"
            if code is not None:
                return False, "unexpected-exit"
            if n == -1:
                return app.validate_until is None, "all"
            return app.validate_until == n, ("zero" if n == 0 else "some")

        return h

    def replay(args):
        import io, os, tempfile, contextlib
        from cutplace import applications
        n = args["n"]
        d = tempfile.mkdtemp()
        try:
            cid = os.path.join(d, "cid.csv")
            dat = os.path.join(d, "data.csv")
            open(cid, "w").write("d,format,delimited\nf,x,,,1\n")
            open(dat, "w").write("a\n" * 3 + "toolong\n")
            app = applications.CutplaceApp()
            code = None
            with contextlib.redirect_stderr(io.StringIO()):
                try:
                    app.set_options(["cutplace", "--until", str(n), cid, dat])
                except SystemExit as e:
                    code = e.code
            exp = None if n == -1 else n
            bad = (code != 2) if n < -1 else (code is not None or app.validate_until != exp)
            return bad, "--until %d: exit=%r validate_until=%r" % (n, code, app.validate_until), "until-option"
        finally:
            import shutil
            shutil.rmtree(d)

    return mk, replay


def native_real_csv():
    """concrete: real delimited texts (blank lines, quoted cells with line breaks, a missing final newline) through the
    real csv container: header and limit count the rows the csv module delivers -- a blank line is a row (with no
    items), a quoted cell spanning two lines is one row.  Exploration over a finite list, not a solver verdict."""
    import csv
    import io
    from cutplace import interface, validio, errors
    failures = []
    n = 0
    keys = ("t12",)
    texts = ["ab\ncd\nx\n", "ab\n\ncd\nx\n", "\nab\ncd\n", "ab\n\n\ncd\n", "ab\ncd\n\n", "\n\n\n", "title\n\nab\ncd\ntoolong\nx",
             '"a\nb"\ncd\nx\n', 'h\n"multi\nline\ncaption"\nab\ntoolong\ncd\n', "ab\r\n\r\ncd\r\ntoolong\r\n", '""\nab\n""\n',
             "toolong\n\ntoolong\nab\n"]
    for text in texts:
        rows = list(csv.reader(io.StringIO(text, newline=""), strict=True))
        for header in (0, 1, 2, 3):
            for limit in (None, 0, 1, 2, 3, 5):
                n += 1
                cid = interface.create_cid_from_string(rf.cid_text(keys, extra=("d,header,%d" % header,)))
                exp = rf.ref_read(rows, header, limit, keys)
                try:
                    got = rf.observe(list(validio.rows(cid, io.StringIO(text, newline=""), on_error="yield", validate_until=limit)))
                except Exception as e:  # noqa
                    failures.append(dict(key="header-limit-real-csv", what="text %r header %d limit %r: rows() raised %s: %s" % (
                        text, header, limit, type(e).__name__, e), args=dict(text=text, header=header, limit=limit)))
                    continue
                if not rf.same_output(got, exp):
                    failures.append(dict(key="header-limit-real-csv", what="text %r (csv rows %r) header %d limit %r: got %r expected %r" % (
                        text, rows, header, limit, got, [e[:3] for e in exp]), args=dict(text=text, header=header, limit=limit)))
                    continue
                # the validate-only API agrees
                first = None
                for e in exp:
                    if e[0] == "err" and first is None:
                        first = e
                try:
                    validio.validate(cid, io.StringIO(text, newline=""), validate_until=limit)
                    raised = None
                except errors.DataError as e:
                    raised = e
                if (raised is None) != (first is None) or (raised is not None and raised.location.line != first[1]):
                    failures.append(dict(key="header-limit-real-csv", what="text %r header %d limit %r: validate() raised %r, expected "
                                         "the error of row %r" % (text, header, limit, raised, None if first is None else first[1] + 1),
                                         args=dict(text=text, header=header, limit=limit)))
    # spreadsheets: the header rows of the selected sheet are skipped (Sheet 2 with Header 1, Header 0, Header 2)
    import os
    import shutil
    import tempfile
    import xlsxwriter
    from props.c15 import encode_document, write_ods
    d = tempfile.mkdtemp(prefix="c07native")
    try:
        first = [["zz"], ["zz"], ["zz"], ["zz"]]
        second = [["ab"], ["toolong"], ["cd"], ["x"]]
        ods = os.path.join(d, "two.ods")
        write_ods(ods, encode_document([("first", first), ("second", second)]))
        xlsx = os.path.join(d, "two.xlsx")
        wb = xlsxwriter.Workbook(xlsx)
        for table in (first, second):
            ws = wb.add_worksheet()
            for y, row in enumerate(table):
                ws.write_string(y, 0, row[0])
        wb.close()
        for fmt, path in (("ods", ods), ("excel", xlsx)):
            for order in ("header-first", "sheet-first"):
                for header in (0, 1, 2):
                    for limit in (None, 1, 2, 3):
                        n += 1
                        props = ["d,header,%d" % header, "d,sheet,2"]
                        if order == "sheet-first":
                            props.reverse()
                        cid = interface.create_cid_from_string("d,format,%s\n%s\nf,f0_t12,,,1...2,Text,\n" % (fmt, "\n".join(props)))
                        exp = rf.ref_read(second, header, limit, keys)
                        try:
                            got = rf.observe(list(validio.rows(cid, path, on_error="yield", validate_until=limit)))
                        except Exception as e:  # noqa
                            failures.append(dict(key="header-limit-spreadsheet", what="%s, %s, header %d, limit %r raised %s: %s" % (
                                fmt, order, header, limit, type(e).__name__, e), args=dict(fmt=fmt, header=header, limit=limit)))
                            continue
                        if not rf.same_output(got, exp):
                            failures.append(dict(key="header-limit-spreadsheet", what="%s sheet 2 (%s), header %d, limit %r: got %r expected %r" % (
                                fmt, order, header, limit, got, [e[:3] for e in exp]), args=dict(fmt=fmt, header=header, limit=limit)))
    finally:
        shutil.rmtree(d, ignore_errors=True)
    return dict(count=n, failures=failures, samples=[])


def build(tier, seed):
    queries = []
    shapes = [(("t12",), 3), (("t12",), 4), (("ch", "t01"), 2), (("t12",), 1), (("t12",), 0)]
    if tier == "thorough":
        shapes += [(("t12",), 5), (("t12",), 6), (("ch", "t01"), 3), (("t1", "t12", "ch"), 2)]
    for keys, nrows in shapes:
        for api in APIS:
            mk, rp = make(keys, nrows, api)
            queries.append(Query("C07/%s/rows=%d/%s" % ("+".join(keys), nrows, api), "header-limit", mk,
                                 "fields %r, %d rows, every cell symbolic (any Unicode, len<=2), header 0..3, limit "
                                 "none or 0..%d, api %s" % (keys, nrows, nrows + 1, api),
                                 budget_s=300 if tier == "quick" else 1200, per_path_timeout=60, replay=rp,
                                 functions=FUNCS, stubs=STUBS))
    from props.c14 import make_delimited_write
    mkw, rpw = make_delimited_write(3, (2, 2, 2), False, 1, True)
    queries.append(Query("C07/writer-header/write_row-then-write_rows", "writer-header", mkw,
                         "Writer under a CID with Header 1: the first row written is the header (not validated), every later "
                         "row is validated whether it goes through write_row() or a later write_rows() call; 3 rows, cells "
                         "symbolic (len<=2)", budget_s=300, replay=rpw, functions=FUNCS + ("cutplace.validio.Writer.write_row",
                                                                                          "cutplace.validio.Writer.write_rows"),
                         stubs=("S-CSVW _compat.csv_writer -> recorder", "S-FMT")))
    mkw2, rpw2 = make_delimited_write(3, (2, 2, 2), False, 2, False)
    queries.append(Query("C07/writer-header/header=2", "writer-header", mkw2,
                         "Writer under a CID with Header 2: the first two rows written are header rows whatever they contain "
                         "(line breaks inside a cell included), the third row is validated; cells symbolic (len<=2)",
                         budget_s=300, replay=rpw2, functions=FUNCS + ("cutplace.validio.Writer.write_row",),
                         stubs=("S-CSVW _compat.csv_writer -> recorder", "S-FMT")))
    from props.c14 import make_fixed_write
    mkf, rpf = make_fixed_write(2, "none", (2, 2), {0: ("ab", "c")})
    queries.append(Query("C07/writer-header/fixed-without-line-delimiter", "writer-header", mkf,
                         "fixed Writer, line delimiter none, Header 0..1: the first row written is the header (if any), the second "
                         "row (symbolic) is validated", budget_s=600, replay=rpf, functions=FUNCS + ("cutplace.rowio.FixedRowWriter.write_row",),
                         stubs=("S-STREAM (recording write)", "S-FMT")))
    mk, rp = make_until()
    queries.append(Query("C07/until-option", "until", mk, "--until value n: every integer", budget_s=120,
                         expect=("exit2", "all", "zero", "some"), replay=rp, functions=FUNCS,
                         stubs=("S-ARGS argparse.ArgumentParser.parse_args -> Namespace with symbolic validate_until",
                                "CutplaceApp.set_cid_from_path -> recorder")))
    return dict(queries=queries, native=native_real_csv,
                assumptions=["rows reach validio exactly as the container reader yields them (S-ROWS)"],
                outside_claim=["argparse's own text-to-int conversion", "the end-to-end subprocess", "tables above the bounds"],
                exhaustive=False)


def replay_case(case):
    for tier in ("quick", "thorough"):
        for q in build(tier, 0)["queries"]:
            if q.qid == case.get("query"):
                rep, detail, _ = q.replay(case["args"])
                return rep, detail
    return False, "no such query"
