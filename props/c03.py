"""C03  Empty, length and allowed-character guards hold for every field type.  (DESIGN.md section 6, C03)

FIELD family: a real <Type>FieldFormat under a real DataFormat; the type's own hook (validated_value) is replaced
on the instance by a recorder that accepts or rejects as a symbolic flag says, so that AbstractFieldFormat.validated
is characterised completely: reject / empty value without consulting the hook / hook called once with the cell."""
import itertools
import random

from vlib.engine import Query, assume
from vlib.envstubs import patched
from vlib import rowflow as rf
from vlib import fieldfam as ff

FUNCS = ("cutplace.fields.AbstractFieldFormat.validated", "cutplace.fields.AbstractFieldFormat.validate_characters",
         "cutplace.fields.AbstractFieldFormat.validate_empty", "cutplace.fields.AbstractFieldFormat.validate_length",
         "cutplace.ranges.Range.validate", "cutplace.ranges.DecimalRange.validate",
         "cutplace.fields.IntegerFieldFormat.__init__", "cutplace.fields.DecimalFieldFormat.__init__")


def rule_for(type_name, length_key, fmt):
    if type_name == "Constant":
        if fmt == "fixed":
            return "abc"
        return "abc" if length_key == "multi" else "ab"
    return ff.DEFAULT_RULE[type_name]


def constructible(type_name, empty, length_key, fmt):
    if type_name == "Constant" and empty:
        return False  # 'a Constant that can be empty' is refused by the constructor (use Choice)
    return True


def make(type_name, empty, length_key, allowed_key, fmt, maxlen, late_allowed=False):
    length_text, length_items = ff.LENGTHS[length_key]
    if fmt == "fixed":
        length_text, length_items = str(ff.FIXED_WIDTH), [(ff.FIXED_WIDTH, ff.FIXED_WIDTH)]
    allowed_text, allowed_items = ff.ALLOWED[allowed_key]
    rule = rule_for(type_name, length_key, fmt)

    def go(cell, hook_ok):
        from cutplace import errors

        if late_allowed:
            # through the real CID loader, the 'allowed characters' row coming AFTER the field row
            from cutplace import interface
            with rf.untraced():
                cid = interface.Cid()
                cid.read("<harness>", [["d", "format", fmt], ["f", "x", "", "X" if empty else "", length_text, type_name, rule],
                                       ["d", "allowed characters", allowed_text]])
                field = cid.field_formats[0]
        else:
            df = ff.data_format(fmt, allowed_text)
            field = ff.build_field(type_name, empty, length_text, rule, df)
        calls = []
        marker = object()

        def hook(value):
            calls.append(value)
            if not hook_ok:
                raise errors.FieldValueError("rejected by the harness hook")
            return marker

        field.validated_value = hook
        exp, exp_value = ff.guard_oracle(cell, fmt, empty, length_items, allowed_items)
        with patched(rf.smart_repr()):
            try:
                result = field.validated(cell)
                accepted = True
            except errors.FieldValueError:
                accepted = False
                result = None
        if exp == "reject":
            return (not accepted), "reject", "expected rejection, accepted=%s hook calls=%r" % (accepted, calls)
        if exp == "empty":
            ok = accepted and len(calls) == 0 and (result is None if ff.EMPTY_VALUE[type_name] is None else result == "")
            return ok, "empty", "expected the empty value %r without consulting the hook: accepted=%s result=%r calls=%r" % (
                ff.EMPTY_VALUE[type_name], accepted, result, calls)
        ok = len(calls) == 1 and calls[0] == exp_value and accepted == hook_ok and (not accepted or result is marker)
        return ok, ("hook-ok" if hook_ok else "hook-no"), \
            "expected one hook call with %r and accepted=%s: accepted=%s calls=%r" % (exp_value, hook_ok, accepted, calls)

    def mk(mode):
        def h(cell: str, hook_ok: bool):
            assume(len(cell) <= maxlen)
            ok, cls, _ = go(cell, hook_ok)
            return ok, cls

        return h

    def replay(args):
        try:
            ok, cls, detail = go(args["cell"], args["hook_ok"])
        except Exception as e:  # noqa  (the declarations of the grid are all well-formed)
            return True, "%s field (empty=%s, length=%r, rule=%r) under format %s with allowed characters %r%s cannot be " \
                "declared: %s: %s" % (type_name, empty, length_text, rule, fmt, allowed_text,
                                      " (row after the field row, through Cid.read)" if late_allowed else "",
                                      type(e).__name__, e), "field-guards"
        return (not ok), "%sFieldFormat(empty=%s, length=%r, rule=%r) format %s allowed %r cell %r: %s" % (
            type_name, empty, length_text, rule, fmt, allowed_text, args["cell"], detail), "field-guards"

    return mk, replay


def reachable_classes(fmt, empty, length_key, allowed_key, maxlen):
    """which outcome classes some cell within the bound reaches (native sampling of the oracle) -- the query must
    see each of them on at least one path (vacuity guard)"""
    from vlib import engine
    length_items = ff.LENGTHS[length_key][1] if fmt != "fixed" else [(ff.FIXED_WIDTH, ff.FIXED_WIDTH)]
    allowed_items = ff.ALLOWED[allowed_key][1]
    seen = set()
    engine._native[0] = True
    try:
        for cell in ("", "a", "ab", "abc", "abcd", " ", "  ", "a ", "A", "aA", "abcde"):
            if len(cell) > maxlen:
                continue
            try:
                kind, _ = ff.guard_oracle(cell, fmt, empty, length_items, allowed_items)
            except engine.AssumeFailed:
                continue
            seen.update(["hook-ok", "hook-no"] if kind == "hook" else [kind])
    finally:
        engine._native[0] = False
    return sorted(seen)


def native_cells_from_files():
    """concrete: a cell is judged by the guards as it is stored -- the same verdict whether the field is asked
    directly, the table comes from a text stream, or from a file given by path (delimited and fixed).  Exploration
    over a pool of cells with line breaks, blanks and control characters; not a solver verdict."""
    import csv
    import io
    import os
    import shutil
    import tempfile
    from cutplace import interface, validio, errors
    failures = []
    n = 0
    d = tempfile.mkdtemp(prefix="c03native")
    cells = ["abc", "a\r\nb", "ab\r\ncd", "a\rb", "a\nb", "ab\ncd", "a\r\n", "\r\nab", "a b", "a\tb", "abcd\n", "abc\n", "\nabc", "ab\x0bc",
             "a\x85b", "a\u2028b", "abcdef", "ab", "   ", "a\r\r\nb"]
    try:
        for allowed in ("32...126, lf", "32...126", "32...126, cr, lf", ""):
            text = "d,format,delimited\nd,encoding,utf-8\n" + ("d,allowed characters,\"%s\"\n" % allowed if allowed else "") + \
                "f,k,,,1\nf,v,,,3...5\n"
            cid = interface.create_cid_from_string(text)
            rows = [["k", c] for c in cells]
            path = os.path.join(d, "cells.csv")
            with open(path, "w", newline="", encoding="utf-8") as f:
                csv.writer(f).writerows(rows)
            with open(path, "r", newline="", encoding="utf-8") as f:
                content = f.read()
            direct = []
            for c in cells:
                try:
                    cid.field_formats[1].validated(c)
                    direct.append(True)
                except errors.FieldValueError:
                    direct.append(False)
            for how, source in (("stream", lambda: io.StringIO(content, newline="")), ("path", lambda: path)):
                n += 1
                try:
                    got = [not isinstance(r, errors.DataError) for r in validio.rows(interface.create_cid_from_string(text), source(), on_error="yield")]
                except Exception as e:  # noqa
                    failures.append(dict(key="field-guards-stored-cells", what="allowed characters %r, delimited %s: %s: %s" % (
                        allowed, how, type(e).__name__, e), args=dict(allowed=allowed, how=how)))
                    continue
                if got != direct:
                    i = next((i for i, (a, b) in enumerate(zip(got, direct)) if a != b), None)
                    failures.append(dict(key="field-guards-stored-cells", what="allowed characters %r: cell %r read from a %s is %s, the field "
                                         "itself %s it" % (allowed, cells[i] if i is not None else None, how,
                                                           "accepted" if (i is not None and got[i]) else "rejected",
                                                           "accepts" if (i is not None and direct[i]) else "rejects"),
                                         args=dict(allowed=allowed, how=how)))
        # spreadsheets: cells with runs of blanks, tabs and line breaks (ODS stores them as elements), number cells
        # holding 0 and FALSE (xlsx): the guards see the whole cell / the rendered number, never an empty cell
        import xlsxwriter
        from props.c15 import encode_document, write_ods
        sheet_cells = ["ok", "De  la Fontaine-Beaumont", "call\tM\u00fcller", "a  b", " lead", "x\ny long line", "ab", "toolong value 123"]
        for allowed in ("", "32...126, tab, lf"):
            for fmt in ("ods", "excel"):
                n += 1
                text = "d,format,%s\n" % fmt + ("d,allowed characters,\"%s\"\n" % allowed if allowed else "") + "f,k,,,1\nf,v,,,2...12\n"
                cid = interface.create_cid_from_string(text)
                path = os.path.join(d, "cells." + ("ods" if fmt == "ods" else "xlsx"))
                rows = [["k", c] for c in sheet_cells]
                if fmt == "ods":
                    write_ods(path, encode_document([("s", rows)], ws_elements=True))
                else:
                    wb = xlsxwriter.Workbook(path)
                    ws = wb.add_worksheet()
                    for y, row in enumerate(rows):
                        for x, c in enumerate(row):
                            ws.write_string(y, x, c)
                    wb.close()
                direct = []
                for c in sheet_cells:
                    try:
                        cid.field_formats[1].validated(c)
                        direct.append(True)
                    except errors.FieldValueError:
                        direct.append(False)
                try:
                    got = [not isinstance(r, errors.DataError) for r in validio.rows(interface.create_cid_from_string(text), path, on_error="yield")]
                except Exception as e:  # noqa
                    got = "%s: %s" % (type(e).__name__, e)
                if got != direct:
                    failures.append(dict(key="field-guards-stored-cells", what="format %s, allowed characters %r: cells %r accepted as %r, the field itself "
                                         "says %r" % (fmt, allowed, sheet_cells, got, direct), args=dict(fmt=fmt, allowed=allowed)))
        n += 1
        path = os.path.join(d, "zero.xlsx")
        wb = xlsxwriter.Workbook(path)
        ws = wb.add_worksheet()
        ws.write_number(0, 0, 0)
        ws.write_number(0, 1, 0)
        ws.write_boolean(1, 0, False)
        ws.write_number(1, 1, 3)
        ws.write_number(2, 0, 7)
        wb.close()
        cid = interface.create_cid_from_string("d,format,excel\nf,must,,,,Integer,0...9\nf,may,,X,,Integer,1...5\n")
        try:
            got = [("error", r.location.cell) if isinstance(r, errors.DataError) else r for r in validio.rows(cid, path, on_error="yield")]
        except Exception as e:  # noqa
            got = "%s: %s" % (type(e).__name__, e)
        if got != [("error", 1), ["0", "3"], ["7", ""]]:
            failures.append(dict(key="field-guards-stored-cells", what="xlsx number cells 0 / FALSE / an absent cell under (Integer 0...9, optional Integer "
                                 "1...5): %r, expected the 0 in the optional field to be rejected by its rule and the absent cell to be empty" % (got,), args={}))
    finally:
        shutil.rmtree(d, ignore_errors=True)
    return dict(count=n, failures=failures, samples=[])


def grid():
    out = []
    for t, e, lk, ak, fmt in itertools.product(ff.TYPES, (False, True), ff.LENGTHS, ff.ALLOWED, ff.FORMATS):
        if fmt == "fixed" and lk != "exact":
            continue  # fixed: exactly one exact length (the width)
        if ak == "quoted":
            continue
        if constructible(t, e, lk, fmt):
            out.append((t, e, lk, ak, fmt))
    return out


def build(tier, seed):
    rnd = random.Random(seed)
    g = grid()
    if tier == "quick":
        # deterministic core (per type: the fixed-width empty/blank cases, a multi-item length, each format) + seeded extras
        core = []
        for i, t in enumerate(ff.TYPES):
            core += [(t, False, "exact", "none", "fixed"), (t, True, "exact", "one", "fixed"),
                     (t, False, "multi", "two", "delimited"), (t, True, "upper", "none", ("excel", "ods")[i % 2]),
                     (t, False, "lower", "one", ("ods", "excel")[i % 2]), (t, True, "both", "two", "delimited")]
        core = [c for c in core if c in g]
        rest = [c for c in g if c not in core]
        g = core + rnd.sample(rest, 24)
    queries = []
    for t, e, lk, ak, fmt in g:
        maxlen = 3 if tier == "quick" else 5
        if fmt == "fixed":
            maxlen = 4
        mk, rp = make(t, e, lk, ak, fmt, maxlen)
        exp = reachable_classes(fmt, e, lk, ak, maxlen)
        queries.append(Query("C03/%s/%s/empty=%s/len=%s/allowed=%s" % (t, fmt, "X" if e else "-", lk, ak), "guards", mk,
                             "%s field, format %s, empty %s, length %r, allowed characters %r; cell: every Unicode "
                             "text of length <= %d; hook verdict symbolic" % (t, fmt, e, ff.LENGTHS[lk][0] if fmt != "fixed"
                                                                               else "3", ff.ALLOWED[ak][0], maxlen),
                             budget_s=300 if tier == "quick" else 1200, per_path_timeout=60, expect=exp, replay=rp,
                             functions=FUNCS, stubs=("type hook validated_value replaced by a recorder", "S-FMT")))
    for t, e, lk, fmt in (("Text", False, "both", "delimited"), ("Integer", True, "exact", "fixed"), ("Choice", False, "none", "ods")) + (
            () if tier == "quick" else (("Decimal", True, "upper", "excel"), ("RegEx", False, "exact", "fixed"), ("DateTime", True, "none", "delimited"))):
        ak = "quoted" if t in ("Text", "Decimal") else "one"
        mk, rp = make(t, e, lk, ak, fmt, 3, late_allowed=True)
        queries.append(Query("C03/%s/%s/empty=%s/len=%s/allowed=%s-declared-after-the-field" % (t, fmt, "X" if e else "-", lk, ak),
                             "guards-late-allowed", mk,
                             "%s field loaded through Cid.read with the 'allowed characters' row after the field row (%s); cell: "
                             "every Unicode text of length <= 3" % (t, fmt), budget_s=300, per_path_timeout=60, replay=rp,
                             expect=reachable_classes(fmt, e, lk, ak, 3), functions=FUNCS + ("cutplace.interface.Cid.read",),
                             stubs=("type hook validated_value replaced by a recorder", "S-FMT")))
    # the guards are consulted for every cell of every row (not only the first time a value is seen): consecutive
    # rows through the real Reader, each cell judged by the guard oracle of its field (machinery shared with C04)
    from props import c04
    for keys, widths, sym in ((("t12",), (1, 1), ((0, 0), (1, 0))), (("t12", "t01"), (2, 2, 2), ((0, 0), (1, 0), (1, 1), (2, 1))),
                              (("ch", "t1"), (2, 2), ((0, 0), (0, 1), (1, 0), (1, 1)))):
        mk, rp4 = c04.make(keys, widths, set(sym), None)

        def rp(args, rp4=rp4):
            bad, detail, _ = rp4(args)
            return bad, detail, "field-guards-every-row"

        queries.append(Query("C03/rows/%s/w=%s" % ("+".join(keys), ",".join(map(str, widths))), "guards-every-row", mk,
                             "fields %s, %d consecutive rows through Reader.rows(on_error='yield'), %d symbolic cells (every "
                             "Unicode text of length <= 2), header 0..2" % ("+".join(keys), len(widths), len(sym)),
                             budget_s=300, per_path_timeout=60, replay=rp, functions=FUNCS + c04.FUNCS, stubs=c04.STUBS))
    return dict(queries=queries, warm=("strip",), native=native_cells_from_files,
                assumptions=["fixed-width cells that start or end (after blank-stripping) with white space other than "
                             "the blank are outside the claim: the property speaks of blanks, the code strips all white "
                             "space", "blank-only fixed cells wider than the field are outside the claim"],
                outside_claim=["cells longer than the bound", "declarations outside the grid"],
                exhaustive=(tier == "thorough"))


def replay_case(case):
    for tier in ("thorough",):
        for q in build(tier, 0)["queries"]:
            if q.qid == case.get("query"):
                rep, detail, _ = q.replay(case["args"])
                return rep, detail
    return False, "no such query"
