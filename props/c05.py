"""C05  Uniqueness and distinct-count checks are decided over the whole data set.  (DESIGN.md section 6, C05)

ROWFLOW (yield mode + close) with the real IsUniqueCheck / DistinctCountCheck.  Key cells range over a small
alphabet (the solver enumerates the key assignments: dict insertion hashes, hashing realises); the non-key cell's
validity, the header and the limit stay symbolic."""
import itertools

from vlib.engine import Query, assume
from vlib.envstubs import patched
from vlib import rowflow as rf

FUNCS = ("cutplace.checks.IsUniqueCheck.check_row", "cutplace.checks.IsUniqueCheck.reset",
         "cutplace.checks.DistinctCountCheck.check_row", "cutplace.checks.DistinctCountCheck.check_at_end",
         "cutplace.checks.DistinctCountCheck._eval", "cutplace.validio.Reader.rows",
         "cutplace.validio.BaseValidator.validate_row", "cutplace.validio.BaseValidator.close")
OPS = ("==", "!=", "<", "<=", ">", ">=")


def py_cmp(op, a, b):
    return {"==": a == b, "!=": a != b, "<": a < b, "<=": a <= b, ">": a > b, ">=": a >= b}[op]


def cid_text(nkeys, checks, key_decl=None):
    lines = ["d,format,delimited"]
    for i in range(nkeys):
        lines.append("f,k%d,%s" % (i, key_decl or ",,,Choice,\"a,b\""))
    lines.append("f,v,,X,...1,Text,")
    lines += checks
    return "\n".join(lines) + "\n"


def oracle(rows, header, limit, nkeys, checks, register="accepted", key_ok=None):
    """checks: list of ("unique", [key indexes]) / ("count", field index, op, n) in declaration order.
    -> (items, close_fails); items: ("row", row) | ("err", line, cell, see_also_line or None)
    register="accepted": a key is remembered only when its row is finally accepted (what the property says);
    register="seen": a key is remembered as soon as the IsUnique check saw it, even if a later-declared check then
    rejects the row (used only to classify a counterexample as the known finding)."""
    seen = [dict() for _ in checks]
    out = []
    n = nkeys + 1
    for i, row in enumerate(rows, 1):
        if i <= header:
            continue
        if limit is not None and i > limit:
            out.append(("row", row))
            continue
        bad = None
        if len(row) != n:
            bad = (0, None)
        else:
            for j in range(nkeys):
                if not (key_ok(row[j]) if key_ok is not None else (row[j] == "a" or row[j] == "b")):
                    bad = (j, None)
                    break
            if bad is None and len(row[nkeys]) > 1:
                bad = (nkeys, None)
        if bad is None:
            tentative = []
            for ci, chk in enumerate(checks):
                if chk[0] == "unique":
                    key = tuple(row[j] for j in chk[1])
                    if key in seen[ci]:
                        bad = (0, seen[ci][key])
                        break
                    if register == "seen":
                        seen[ci][key] = i - 1
                    else:
                        tentative.append((ci, key))
                else:
                    seen[ci][row[chk[1]]] = True  # distinct count: every row that reached the check counts
            if bad is None:
                for ci, key in tentative:
                    seen[ci][key] = i - 1
        if bad is not None:
            out.append(("err", i - 1, bad[0], bad[1]))
        else:
            out.append(("row", row))
    fails = False
    for ci, chk in enumerate(checks):
        if chk[0] == "count":
            if not py_cmp(chk[2], len(seen[ci]), chk[3]):
                fails = True
                break
    return out, fails


POOL = ["a", "a, b", "c", "b, c"]  # texts that collide when key parts are joined with ', '


SEPARATORS = ["", " ", ",", ", ", "|", ";", ":", "/", "-", "_", "\t", "\x00", "\x1f", "', '", "','", '", "', "\n", "\\", "+", "#"]


def native_key_collisions(key="unique-distinct"):
    """concrete: composite keys that differ as tuples but coincide once their parts are joined with some separator,
    rendered with str()/repr(), or compared ignoring case / surrounding blanks are different keys (both rows accepted);
    equal tuples are duplicates.  Exploration over a finite list of separators, not a solver verdict."""
    import io
    from cutplace import interface, validio, errors
    failures = []
    n = 0
    text = "d,format,delimited\nf,k0\nf,k1\nf,k2,,X\nc,u,IsUnique,\"k0, k1\"\n"
    text3 = "d,format,delimited\nf,k0\nf,k1\nf,k2,,X\nc,u,IsUnique,\"k0, k1, k2\"\n"
    pairs = []
    for sep in SEPARATORS:
        pairs.append((text, ["a", "b" + sep + "c", ""], ["a" + sep + "b", "c", ""], False))
        pairs.append((text3, ["a", "b" + sep + "c", "d"], ["a" + sep + "b", "c", "d"], False))
        pairs.append((text3, ["a", "b", "c" + sep + "d"], ["a", "b" + sep + "c", "d"], False))
    pairs += [(text, ["a", "B", ""], ["a", "b", ""], False), (text, ["a ", "b", ""], ["a", "b", ""], False),
              (text, ["a", " b", ""], ["a", "b", ""], False), (text, ["1", "2", ""], ["01", "2", ""], False),
              (text, ["1", "2", ""], ["1", "2.0", ""], False), (text, ["a", "b", "x"], ["a", "b", "y"], True),
              (text3, ["a", "b", "x"], ["a", "b", "y"], False), (text3, ["a", "b", ""], ["a", "b", ""], True),
              (text, ["\u00df", "b", ""], ["ss", "b", ""], False), (text, ["\u00e9", "b", ""], ["e\u0301", "b", ""], False),
              (text, ["None", "b", ""], ["", "b", ""], False)]
    for cid_text, r1, r2, dup in pairs:
        if not r1[0] or not r1[1] or not r2[0] or not r2[1]:
            continue
        n += 1
        try:
            cid = interface.create_cid_from_string(cid_text)
            with patched(*rf.srows_patches()):
                got = list(validio.rows(cid, [r1, r2], on_error="yield"))
            second_rejected = len(got) == 2 and isinstance(got[1], errors.CheckError)
            first_ok = len(got) >= 1 and got[0] == r1
            if not first_ok or second_rejected != dup or (not dup and got[1] != r2):
                failures.append(dict(key=key, what="IsUnique over %s: rows %r and %r -> %r; expected the second row to be %s" % (
                    "k0,k1,k2" if cid_text is text3 else "k0,k1", r1, r2, got, "rejected as duplicate" if dup else "accepted"),
                    args=dict(rows=[r1, r2])))
        except Exception as e:  # noqa
            failures.append(dict(key=key, what="IsUnique: rows %r and %r raised %s: %s" % (r1, r2, type(e).__name__, e),
                                 args=dict(rows=[r1, r2])))
    # the fields a check names are the fields of exactly that name (names differing in case are different fields)
    base = "d,format,delimited\nf,code\nf,Code\n"
    named = [(base + "c,u,IsUnique,Code\n", [["a", "x"], ["a", "y"]], [True, True], False),
             (base + "c,u,IsUnique,Code\n", [["a", "x"], ["b", "x"]], [True, False], False),
             (base + "c,u,IsUnique,code\n", [["a", "x"], ["b", "x"]], [True, True], False),
             (base + "c,u,IsUnique,code\n", [["a", "x"], ["a", "y"]], [True, False], False),
             (base + "c,d,DistinctCount,Code <= 1\n", [["a", "x"], ["b", "x"]], [True, True], False),
             (base + "c,d,DistinctCount,Code <= 1\n", [["a", "x"], ["a", "y"]], [True, True], True),
             (base + "c,d,DistinctCount,code <= 1\n", [["a", "x"], ["a", "y"]], [True, True], False),
             (base + "c,u,IsUnique,\"Code, code\"\n", [["a", "b"], ["b", "a"]], [True, True], False)]
    for cid_text, rows, verdicts, end_fails in named:
        n += 1
        try:
            cid = interface.create_cid_from_string(cid_text)
            with patched(*rf.srows_patches()):
                reader = validio.Reader(cid, rows, on_error="yield")
                got = [not isinstance(r, errors.DataError) for r in reader.rows()]
                try:
                    reader.close()
                    failed = False
                except errors.CheckError:
                    failed = True
            if got != verdicts or failed != end_fails:
                failures.append(dict(key=key, what="fields code/Code with check %r: rows %r -> accepted %r, end fails %s; expected %r, %s" % (
                    cid_text.splitlines()[-1], rows, got, failed, verdicts, end_fails), args=dict(cid=cid_text, rows=rows)))
        except Exception as e:  # noqa
            failures.append(dict(key=key, what="fields code/Code with check %r raised %s: %s" % (
                cid_text.splitlines()[-1], type(e).__name__, e), args=dict(cid=cid_text)))
    return dict(count=n, failures=failures, samples=[])


def make(nkeys, nrows, checks, check_rows, fixed_keys=None, twice=False, sym_vals=True, alphabet=(97, 99), keymode="choice",
         api="reader"):
    """keymode 'choice': key cells are single letters of a Choice a/b field; 'int': Integer key fields whose cells are
    digit texts ('7' and '07' are different keys: checks see the text); 'pool': Text key fields whose cells are picked
    (by a symbolic index) from POOL"""
    key_decl = {"choice": None, "int": ",,1...2,Integer,0...99", "pool": ",,,Text,"}[keymode]
    key_ok = {"choice": None, "int": (lambda c: 1 <= len(c) <= 2), "pool": (lambda c: True)}[keymode]
    text = cid_text(nkeys, check_rows, key_decl)
    n = nkeys + 1

    def go(header, has_limit, limit, keys, vals):
        from cutplace import validio, errors

        rows = []
        for r in range(nrows):
            rows.append([keys[r * nkeys + j] for j in range(nkeys)] + [vals[r]])
        lim = limit if has_limit else None
        cid = rf.build_cid(text)
        rf.set_header(cid, header)
        exp, exp_fail = oracle(rows, header, lim, nkeys, checks, key_ok=key_ok)
        why = ""
        if api == "validate":
            # the validate-only API: raises the first row error, else the end-of-data error, else returns
            first = None
            for e in exp:
                if e[0] == "err" and first is None:
                    first = e
            raised = None
            with patched(rf.smart_repr(), *rf.srows_patches()):
                try:
                    validio.validate(cid, rows, validate_until=lim)
                except errors.DataError as error:
                    raised = error
            if first is not None:
                ok = raised is not None and raised.location is not None and raised.location.line == first[1]
            else:
                ok = (raised is not None) == exp_fail and (raised is None or isinstance(raised, errors.CheckError))
            cls = ("rowerr" if first is not None else "clean") + "-" + ("endfail" if exp_fail else "endok")
            return ok, "validate() raised %r; expected first row error %r, end-of-data failure %s" % (raised, first, exp_fail), cls, rows
        with patched(rf.smart_repr(), *rf.srows_patches()):
            reader = validio.Reader(cid, rows, on_error="yield", validate_until=lim)
            for the_pass in range(2 if twice else 1):
                got = []
                produced = list(reader.rows())
                # (the errors are looked at only after the pass: each must still name its own row)
                for r in produced:
                    if isinstance(r, errors.DataError):
                        sa = r.see_also_location
                        got.append(("err", r.location.line, r.location.cell, None if sa is None else sa.line))
                    else:
                        got.append(("row", r))
                ok = len(got) == len(exp)
                if ok:
                    for g, e in zip(got, exp):
                        if g[0] != e[0]:
                            ok = False
                        elif g[0] == "row":
                            if len(g[1]) != len(e[1]) or any(a != b for a, b in zip(g[1], e[1])):
                                ok = False
                        elif g[1:] != e[1:]:
                            ok = False
                if not ok:
                    why = "pass %d: rows(yield) gave %r expected %r" % (the_pass, got, exp)
                    break
            closed_fail = False
            try:
                reader.close()
            except errors.CheckError:
                closed_fail = True
            if ok and closed_fail != exp_fail:
                ok = False
                why = "close() raised CheckError=%s expected %s" % (closed_fail, exp_fail)
        ndup = sum(1 for e in exp if e[0] == "err" and e[3] is not None)
        cls = "dup%d-%s" % (min(ndup, 2), "endfail" if exp_fail else "endok")
        if not ok and not twice:
            alt, alt_fail = oracle(rows, header, lim, nkeys, checks, register="seen", key_ok=key_ok)
            if len(alt) == len(got) and all(
                    g[0] == a[0] and (g[0] == "row" or g[1:] == a[1:]) for g, a in zip(got, alt)) and alt != exp:
                why = "KNOWN-SHAPE " + why
        return ok, why, cls, rows

    def mk(mode):
        def h(header: int, has_limit: bool, limit: int, k0: str, k1: str, k2: str, k3: str, k4: str, k5: str,
              v0: str, v1: str, v2: str, v3: str, v4: str, p0: int, p1: int, p2: int, p3: int, p4: int, p5: int):
            assume(0 <= header <= 1)
            assume(0 <= limit <= nrows + 1)
            keys = [k0, k1, k2, k3, k4, k5]
            vals = [v0, v1, v2, v3, v4]
            if fixed_keys is not None:
                keys = list(fixed_keys) + [""] * 6
            elif keymode == "pool":
                assume(header == 0 and not has_limit)
                picks = [p0, p1, p2, p3, p4, p5]
                keys = []
                for i in range(nrows * nkeys):
                    assume(0 <= picks[i] < len(POOL))
                    keys.append(POOL[picks[i]])
                keys += [""] * 6
            elif keymode == "int":
                for i in range(nrows * nkeys):
                    assume(1 <= len(keys[i]) <= 2)
                    for ch in keys[i]:
                        assume(ord(ch) == 48 or ord(ch) == 55)  # digits 0 and 7: '7', '07', '70', '0', '00', '77'
            else:
                for i in range(nrows * nkeys):
                    assume(len(keys[i]) == 1 and alphabet[0] <= ord(keys[i]) <= alphabet[1])
            for i in range(nrows):
                assume(len(vals[i]) <= 2)
            if not sym_vals:
                vals = [""] * 5
            ok, why, cls, _ = go(header, has_limit, limit, keys, vals)
            return ok, cls

        return h

    def replay(args):
        keys = [args["k%d" % i] for i in range(6)]
        if fixed_keys is not None:
            keys = list(fixed_keys) + [""] * 6
        elif keymode == "pool":
            keys = [POOL[args["p%d" % i] % len(POOL)] for i in range(6)]
        vals = [args["v%d" % i] for i in range(5)] if sym_vals else [""] * 5
        ok, why, cls, rows = go(args["header"], args["has_limit"], args["limit"], keys, vals)
        key = "unique-distinct"
        if why.startswith("KNOWN-SHAPE "):
            key = "isunique-remembers-key-of-row-rejected-by-later-check"
        return (not ok), "checks %r header %d limit %r rows %r: %s" % (
            check_rows, args["header"], args["limit"] if args["has_limit"] else None, rows, why), key

    return mk, replay


def build(tier, seed):
    import random
    rnd = random.Random(seed)
    queries = []
    confs = []  # (nkeys, nrows, checks, check_rows, twice)
    confs.append((1, 3, [("unique", [0])], ["c,u,IsUnique,k0"], False))
    confs.append((2, 2, [("unique", [0, 1])], ["c,u,IsUnique,\"k0, k1\""], False))
    confs.append((1, 2, [("unique", [0])], ["c,u,IsUnique,k0"], True))
    ops = list(OPS)
    pick = [(op, n) for op in ops for n in range(0, 5)]
    chosen = pick if tier == "thorough" else rnd.sample(pick, 6)
    for op, n in chosen:
        confs.append((1, 3, [("count", 0, op, n)], ["c,d,DistinctCount,k0 %s %d" % (op, n)], False))
    confs.append((1, 3, [("unique", [0]), ("count", 0, ">=", 2)], ["c,u,IsUnique,k0", "c,d,DistinctCount,k0 >= 2"], False))
    # two DistinctCount checks count their own field each
    confs.append((2, 2, [("count", 0, "<=", 1), ("count", 1, "<=", 1)], ["c,d0,DistinctCount,k0 <= 1", "c,d1,DistinctCount,k1 <= 1"], False))
    # the distinct count of the second pass over the same data starts from nothing
    confs.append((1, 2, [("count", 0, "==", 1)], ["c,d,DistinctCount,k0 == 1"], True))
    confs.append((1, 3, [("count", 0, ">=", 2)], ["c,d,DistinctCount,k0 >= 2"], True))
    confs.append((2, 3, [("unique", [0]), ("unique", [1])], ["c,u0,IsUnique,k0", "c,u1,IsUnique,k1"], False))
    if tier == "thorough":
        confs.append((3, 2, [("unique", [0, 1, 2])], ["c,u,IsUnique,\"k0,k1,k2\""], False))
        confs.append((2, 3, [("unique", [1])], ["c,u,IsUnique,k1"], False))
        confs.append((1, 3, [("count", 0, "<", 2), ("unique", [0])], ["c,d,DistinctCount,k0 < 2", "c,u,IsUnique,k0"], False))
        confs.append((1, 3, [("unique", [0])], ["c,u,IsUnique,k0"], True))
    confs = [c + ("choice",) for c in confs]
    # the validate-only API (first error raised, end-of-data verdict when no row is rejected), limit symbolic
    confs.append((1, 3, [("count", 0, "<=", 1)], ["c,d,DistinctCount,k0 <= 1"], False, "choice-validate"))
    confs.append((1, 2, [("unique", [0]), ("count", 0, ">=", 2)], ["c,u,IsUnique,k0", "c,d,DistinctCount,k0 >= 2"], False, "choice-validate"))
    confs.append((1, 2, [("unique", [0])], ["c,u,IsUnique,k0"], False, "int"))
    confs.append((1, 2, [("count", 0, "<=", 1)], ["c,d,DistinctCount,k0 <= 1"], False, "int"))
    confs.append((2, 2, [("unique", [0, 1])], ["c,u,IsUnique,\"k0, k1\""], False, "pool"))
    if tier == "thorough":
        confs.append((1, 3, [("unique", [0]), ("count", 0, "<", 3)], ["c,u,IsUnique,k0", "c,d,DistinctCount,k0 < 3"], False, "int"))
        confs.append((2, 3, [("unique", [0, 1])], ["c,u,IsUnique,\"k0, k1\""], False, "pool"))
        confs.append((3, 2, [("unique", [0, 1, 2])], ["c,u,IsUnique,\"k0,k1,k2\""], False, "pool"))
    for nkeys, nrows, checks, check_rows, twice, keymode in confs:
        two = len(checks) > 1 and checks[0][0] == checks[1][0] == "unique"
        api = "reader"
        if keymode.endswith("-validate"):
            keymode, api = keymode.split("-")[0], "validate"
        mk, rp = make(nkeys, nrows, checks, check_rows, twice=twice, sym_vals=(not two) and keymode == "choice",
                      alphabet=(97, 98) if two else (97, 99), keymode=keymode, api=api)
        queries.append(Query("C05/%dkeys%s/rows=%d/%s%s%s" % (nkeys, "" if keymode == "choice" else "-" + keymode, nrows,
                                                             ";".join(c.split(",", 2)[2] for c in check_rows),
                                                             "/twice" if twice else "", "/validate-api" if api == "validate" else ""),
                             "unique-distinct", mk,
                             "%d key field(s) over {a,b,c} (c invalid), 1 value field (len<=2, valid iff len<=1), %d rows, "
                             "checks %r, header 0..1, limit none/0..%d%s" % (nkeys, nrows, check_rows, nrows + 1,
                                                                          ", same Reader iterated twice" if twice else ""),
                             budget_s=600 if tier == "quick" else 2400, per_path_timeout=90, replay=rp, functions=FUNCS,
                             stubs=("S-ROWS", "S-FMT"),
                             # two checks: the known finding lives here; keep exploring after it so that any *other*
                             # violation in the same query is still found
                             keep_going=two, max_cex=2000))
    if tier == "thorough":
        # 5 rows: key assignment enumerated per query (2-letter alphabet), other cells / header / limit symbolic
        for keys in itertools.product("ab", repeat=5):
            mk, rp = make(1, 5, [("unique", [0]), ("count", 0, "==", 2)],
                          ["c,u,IsUnique,k0", "c,d,DistinctCount,k0 == 2"], fixed_keys=keys)
            queries.append(Query("C05/1keys/rows=5/fixed=%s" % "".join(keys), "unique-distinct-5", mk,
                                 "5 rows with keys %s, value cells (len<=2), header, limit symbolic" % "".join(keys),
                                 budget_s=1200, per_path_timeout=90, replay=rp, functions=FUNCS, stubs=("S-ROWS", "S-FMT")))
    return dict(queries=queries, native=native_key_collisions,
                assumptions=["key cells range over the alphabet {a,b,c}; the solver enumerates the key assignments "
                             "(hashing realises symbolic strings)"],
                outside_claim=["more than 3 rows with symbolic keys / 5 rows with enumerated keys", "larger key alphabets",
                               ],
                exhaustive=False)


def replay_case(case):
    for tier in ("quick", "thorough"):
        for q in build(tier, case.get("seed", 0))["queries"]:
            if q.qid == case.get("query"):
                rep, detail, _ = q.replay(case["args"])
                return rep, detail
    return False, "no such query"
