"""C08  Validation outcomes do not depend on what the CID was used for before.  (DESIGN.md section 6, C08)

One inductive step instead of enumerating histories: the CID's checks are put into an ARBITRARY state satisfying
their representation invariant (any subset of the key alphabet remembered at any location, any positive counts),
then one operation runs on a symbolic table; its complete outcome must equal the outcome on a fresh CID.
A counterexample pre-state is replayed as a real history (an earlier read of a file containing those keys)."""
from vlib.engine import Query, assume
from vlib.envstubs import patched
from vlib import rowflow as rf

FUNCS = ("cutplace.validio.Reader.rows", "cutplace.validio.Reader.__init__", "cutplace.validio.BaseValidator.__init__",
         "cutplace.validio.BaseValidator.close", "cutplace.validio.Writer.__init__", "cutplace.validio.Writer.write_row",
         "cutplace.validio.Writer.close", "cutplace.validio.validate", "cutplace.validio.rows",
         "cutplace.checks.IsUniqueCheck.reset", "cutplace.checks.IsUniqueCheck.check_row",
         "cutplace.checks.DistinctCountCheck.reset", "cutplace.checks.DistinctCountCheck.check_row",
         "cutplace.checks.DistinctCountCheck.check_at_end")
CID_TEXT = ("d,format,delimited\nf,k,,,,Choice,\"a,b\"\nf,v,,X,...1,Text,\n"
            "c,uniq,IsUnique,k\nc,dist,DistinctCount,k <= 1\n")
OPS = ("rows-yield", "rows-continue", "rows-raise", "validate", "writer", "reader-late", "reader-unclosed-then-close",
       "iterator-early", "reader-early-unread", "unused-reader-dropped-midrun")
# the outcome on a fresh CID is computed with this operation instead (same outcome structure, no forgotten validator)
BASELINE_OP = {"unused-reader-dropped-midrun": "reader-late"}


from vlib.engine import HarnessOutOfDate  # noqa: E402  (white-box part out of date: exit 3, never a silent pass)


def inject(cid, has_a, has_b, la, lb, ca, cb):
    """put the checks of `cid` into an arbitrary state satisfying their representation invariant"""
    from cutplace import errors

    with rf.untraced():
        uniq = cid.check_map["uniq"]
        dist = cid.check_map["dist"]
    m = {}
    d = {}
    if has_a:
        loc = errors.Location("<earlier>", has_cell=True)
        loc._line = la
        m[("a",)] = loc
        d["a"] = ca
    if has_b:
        loc = errors.Location("<earlier>", has_cell=True)
        loc._line = lb
        m[("b",)] = loc
        d["b"] = cb
    # the injection writes the attributes the checks keep their state in; if the implementation no longer has them the
    # injected state would go nowhere and the step would be vacuous: a harness error, never a silent pass
    if not hasattr(uniq, "_row_key_to_location_map") or not hasattr(dist, "_distinct_value_to_count_map"):
        raise HarnessOutOfDate("IsUniqueCheck._row_key_to_location_map / DistinctCountCheck._distinct_value_to_count_map not found: "
                               "the representation of check state changed, props/c08.py inject() must follow it")
    uniq._row_key_to_location_map = m
    dist._distinct_value_to_count_map = d


def operate(cid, op, rows, dirty=None, limit=None, with_text=False):
    """-> outcome tuple (items, raised, close_raised); `dirty` is called at the point where the earlier history
    is allowed to have happened (before the run starts)."""
    from cutplace import validio, errors

    items = []
    raised = None
    close_raised = False

    def note(r):
        if isinstance(r, errors.DataError):
            sa = r.see_also_location
            items.append(("err", type(r).__name__, r.location.line, r.location.cell, None if sa is None else sa.line) +
                         ((str(r),) if with_text else ()))
        else:
            items.append(("row", r))

    def err(e):
        loc = e.location
        sa = e.see_also_location
        return (type(e).__name__, None if loc is None else loc.line, None if sa is None else sa.line) + ((str(e),) if with_text else ())

    if op in ("rows-yield", "rows-continue", "rows-raise"):
        if dirty:
            dirty()
        try:
            for r in validio.rows(cid, rows, on_error=op.split("-")[1], validate_until=limit):
                note(r)
        except errors.DataError as e:
            raised = err(e)
    elif op == "validate":
        if dirty:
            dirty()
        try:
            validio.validate(cid, rows, validate_until=limit)
        except errors.DataError as e:
            raised = err(e)
    elif op == "reader-late":
        reader = validio.Reader(cid, rows, on_error="yield", validate_until=limit)
        if dirty:
            dirty()  # another run happened between creating the reader and consuming it
        for r in reader.rows():
            note(r)
        try:
            reader.close()
        except errors.CheckError as e:
            close_raised = err(e)
    elif op == "iterator-early":
        # the iterator is obtained, then another run happens, then the iterator is consumed
        reader = validio.Reader(cid, rows, on_error="yield", validate_until=limit)
        it = reader.rows()
        if dirty:
            dirty()
        for r in it:
            note(r)
        try:
            reader.close()
        except errors.CheckError as e:
            close_raised = err(e)
    elif op == "unused-reader-dropped-midrun":
        # a validator that was created but never used is forgotten (garbage collected) while another run on the same
        # CID is under way: that run is judged as if the forgotten validator had never existed
        unused = validio.Reader(cid, rows, on_error="yield")
        if dirty:
            dirty()
        reader = validio.Reader(cid, rows, on_error="yield", validate_until=limit)
        first = True
        for r in reader.rows():
            note(r)
            if first:
                first = False
                unused = None  # noqa: F841  (drops the last reference)
        unused = None  # noqa: F841
        try:
            reader.close()
        except errors.CheckError as e:
            close_raised = err(e)
    elif op == "reader-early-unread":
        # a reader is created, another run happens, the reader is closed without having read anything: it judges
        # an empty data set
        reader = validio.Reader(cid, rows, on_error="yield", validate_until=limit)
        if dirty:
            dirty()
        try:
            reader.close()
        except errors.CheckError as e:
            close_raised = err(e)
    elif op == "reader-unclosed-then-close":
        if dirty:
            dirty()
        reader = validio.Reader(cid, rows, on_error="yield")
        for r in reader.rows():
            note(r)
        # never closed; a second reader over the same data is then run to completion
        reader2 = validio.Reader(cid, rows, on_error="yield")
        for r in reader2.rows():
            note(r)
        try:
            reader2.close()
        except errors.CheckError as e:
            close_raised = err(e)
    elif op == "writer":
        if dirty:
            dirty()
        with patched((validio.rowio, "DelimitedRowWriter", FakeRowWriter)):
            w = validio.Writer(cid, object())
            for row in rows:
                try:
                    w.write_row(row)
                    items.append(("written", row))
                except errors.DataError as e:
                    items.append(("rejected",) + err(e))
            try:
                w.close()
            except errors.CheckError as e:
                close_raised = err(e)
    return items, raised, close_raised


class FakeRowWriter:
    def __init__(self, target, data_format):
        from cutplace import errors
        self._location = errors.Location("<io>", has_cell=True)

    @property
    def location(self):
        return self._location

    def write_row(self, row):
        self._location.advance_line()

    def close(self):
        pass


def same(a, b):
    if len(a[0]) != len(b[0]) or a[1] != b[1] or a[2] != b[2]:
        return False
    for x, y in zip(a[0], b[0]):
        if x[0] != y[0]:
            return False
        if x[0] in ("row", "written"):
            if len(x[1]) != len(y[1]) or any(p != q for p, q in zip(x[1], y[1])):
                return False
        elif x[1:] != y[1:]:
            return False
    return True


def make(op, nrows):
    def rows_of(keys, vals):
        return [[keys[r], vals[r]] for r in range(nrows)]

    def go(has_a, has_b, la, lb, ca, cb, keys, vals, header=0, limit=None):
        rows = rows_of(keys, vals)
        with patched(rf.smart_repr(), *rf.srows_patches()):
            fresh = rf.build_cid(CID_TEXT)
            rf.set_header(fresh, header)
            expected = operate(fresh, BASELINE_OP.get(op, op), rows, limit=limit)
            used = rf.build_cid(CID_TEXT)
            rf.set_header(used, header)
            got = operate(used, op, rows, dirty=lambda: inject(used, has_a, has_b, la, lb, ca, cb), limit=limit)
        ok = same(got, expected)
        nerr = sum(1 for i in expected[0] if i[0] in ("err", "rejected"))
        cls = "err%d-%s" % (min(nerr, 2), "endfail" if (expected[2] or expected[1]) else "endok")
        return ok, got, expected, cls

    def mk(mode):
        def h(has_a: bool, has_b: bool, la: int, lb: int, ca: int, cb: int, k0: str, k1: str, k2: str, v0: str,
              v1: str, v2: str, header: int, has_limit: bool, limit: int):
            assume(la >= 0 and lb >= 0 and ca >= 1 and cb >= 1)
            # header and limit symbolic: runs that validate no row at all (header covers the data, limit 0) included
            assume(0 <= header <= nrows and 0 <= limit <= nrows)
            if op in ("writer", "reader-unclosed-then-close"):
                assume(not has_limit)
            keys = [k0, k1, k2]
            vals = [v0, v1, v2]
            for i in range(nrows):
                assume(len(keys[i]) == 1 and 97 <= ord(keys[i]) <= 99)
                assume(len(vals[i]) <= 1)
            ok, got, expected, cls = go(has_a, has_b, la, lb, ca, cb, keys, vals, header, limit if has_limit else None)
            return ok, cls

        return h

    def replay(args):
        """the pre-state as a real history: an earlier complete read (abandoned without close) of a file holding
        exactly the remembered keys at the remembered rows, then the operation; compared with a fresh CID"""
        import io
        from cutplace import interface, validio, errors
        keys = [args["k0"], args["k1"], args["k2"]]
        vals = [args["v0"], args["v1"], args["v2"]]
        rows = rows_of(keys, vals)
        earlier = []
        wanted = []
        if args["has_a"]:
            wanted.append(("a", args["la"], args["ca"]))
        if args["has_b"]:
            wanted.append(("b", args["lb"], args["cb"]))
        # a file whose accepted rows carry the keys (each key `count` times is impossible under IsUnique, so the
        # history uses one occurrence; counts > 1 arise from an IsUnique-free CID and do not matter to the outcome
        # of a run that resets)
        for k, _, _ in wanted:
            earlier.append([k, ""])

        def history(cid):
            if earlier:
                saved = cid.data_format.header
                rf.set_header(cid, 0)  # the earlier data set had no header rows
                r = validio.Reader(cid, earlier, on_error="continue")
                for _ in r.rows():
                    pass  # abandoned: never closed
                rf.set_header(cid, saved)

        lim = args["limit"] if args.get("has_limit") else None
        with patched(*rf.srows_patches()):
            fresh = interface.create_cid_from_string(CID_TEXT)
            rf.set_header(fresh, args.get("header", 0))
            expected = operate(fresh, BASELINE_OP.get(op, op), rows, limit=lim)
            used = interface.create_cid_from_string(CID_TEXT)
            rf.set_header(used, args.get("header", 0))
            got = operate(used, op, rows, dirty=lambda: history(used), limit=lim)
        bad = not same(got, expected)
        return bad, "history: read %r without closing, then %s (header %r, limit %r) on %r -> %r ; on a fresh CID -> %r" % (
            earlier, op, args.get("header", 0), lim, rows, got, expected), "history-independence"

    return mk, replay


HISTORY_OPS = ("rows-yield", "reader-unclosed", "writer", "writer-unclosed", "rows-raise")


def run_history(cid, hop, rows):
    """an earlier run on the same CID: its outcome is ignored, only what it leaves behind matters"""
    from cutplace import validio, errors
    try:
        if hop == "rows-yield":
            for _ in validio.rows(cid, rows, on_error="yield"):
                pass
        elif hop == "rows-raise":
            for _ in validio.rows(cid, rows, on_error="raise"):
                pass
        elif hop == "reader-unclosed":
            r = validio.Reader(cid, rows, on_error="continue")
            for _ in r.rows():
                pass
        else:
            with patched((validio.rowio, "DelimitedRowWriter", FakeRowWriter)):
                w = validio.Writer(cid, object())
                for row in rows:
                    try:
                        w.write_row(row)
                    except errors.DataError:
                        pass
                if hop == "writer":
                    w.close()
    except errors.DataError:
        pass


CID_TEXT_AT_LEAST_ONE = ("d,format,delimited\nf,k,,,,Choice,\"a,b\"\nf,v,,X,...1,Text,\n"
                         "c,uniq,IsUnique,k\nc,dist,DistinctCount,k >= 1\n")
CID_TEXT_VALUE_COUNT = ("d,format,delimited\nf,k,,,,Choice,\"a,b\"\nf,v,,X,...1,Text,\n"
                        "c,uniq,IsUnique,k\nc,dist,DistinctCount,v <= 1\n")


def make_two_runs(hop, op, cid_text=None, value_alphabet=None):
    """a REAL earlier run (symbolic data) followed by the run under test (symbolic data): no knowledge of how checks
    represent their state is needed -- complements the inductive step, which only covers state the harness knows of"""

    def go(hk, k, v, header):
        hrows = [[hk[0], ""], [hk[1], ""]]
        rows = [[k[0], v[0]], [k[1], v[1]]]
        with patched(rf.smart_repr(), *rf.srows_patches()):
            fresh = rf.build_cid(cid_text or CID_TEXT)
            rf.set_header(fresh, header)
            expected = operate(fresh, op, rows, with_text=True)
            used = rf.build_cid(cid_text or CID_TEXT)
            run_history(used, hop, hrows)
            rf.set_header(used, header)
            got = operate(used, op, rows, with_text=True)
        ok = same(got, expected)
        cls = "endfail" if (expected[2] or expected[1]) else "endok"
        return ok, cls, hrows, rows, got, expected

    def mk(mode):
        def h(h0: str, h1: str, k0: str, k1: str, v0: str, v1: str, header: int):
            assume(0 <= header <= 2)
            for x in (h0, h1, k0, k1):
                assume(len(x) == 1 and 97 <= ord(x) <= 99)
            assume(len(v0) <= 1 and len(v1) <= 1)
            if value_alphabet is not None:
                for v in (v0, v1):
                    assume(len(v) == 1 and value_alphabet[0] <= ord(v) <= value_alphabet[1])
            ok, cls, _, _, _, _ = go([h0, h1], [k0, k1], [v0, v1], header)
            return ok, cls

        return h

    def replay(args):
        ok, cls, hrows, rows, got, expected = go([args["h0"], args["h1"]], [args["k0"], args["k1"]], [args["v0"], args["v1"]],
                                                 args["header"])
        return (not ok), "earlier run %s on %r, then %s (header %d) on %r -> %r ; on a fresh CID -> %r" % (
            hop, hrows, op, args["header"], rows, got, expected), "history-independence"

    return mk, replay


FIXED_CID_TEXT = "d,format,fixed\nf,k,,,1,Choice,\"a,b\"\nf,v,,X,1,Text,\nc,uniq,IsUnique,k\n"
FIXED_HISTORY = ("fixed-writer", "fixed-writer-unclosed", "fixed-reader", "fixed-reader-crlf")


def fixed_history(cid, hop):
    import io
    from cutplace import validio, errors
    if hop.startswith("fixed-writer"):
        target = io.StringIO()
        w = validio.Writer(cid, target)
        w.write_row(["a", "x"])
        w.write_row(["b", ""])
        if hop == "fixed-writer":
            w.close()
    else:
        text = "ax\nb \n" if hop == "fixed-reader" else "ax\r\nb \r\n"
        for _ in validio.rows(cid, io.StringIO(text, newline=""), on_error="yield"):
            pass


def make_fixed_two_runs(hop, maxlen):
    """fixed format (line delimiter 'any'): a concrete earlier run (Writer / Reader) on the CID, then the real
    fixed_rows + Reader over an arbitrary text; outcome must equal the outcome under a freshly loaded CID"""
    from props.c06 import read_mode
    from props.c13 import Stream

    def go(textdata, native_io):
        import io
        with patched(rf.smart_repr()):
            fresh = rf.build_cid(FIXED_CID_TEXT)
            expected = read_mode(fresh, io.StringIO(textdata, newline="") if native_io else Stream(textdata), "yield")
            used = rf.build_cid(FIXED_CID_TEXT)
            fixed_history(used, hop)
            got = read_mode(used, io.StringIO(textdata, newline="") if native_io else Stream(textdata), "yield")
        ok = len(got[0]) == len(expected[0]) and got[1] == expected[1] and got[2] == expected[2] and got[3] == expected[3]
        if ok:
            for a, b in zip(got[0], expected[0]):
                if a[0] != b[0]:
                    ok = False
                elif a[0] == "row":
                    if len(a[1]) != len(b[1]) or any(x != y for x, y in zip(a[1], b[1])):
                        ok = False
                elif a[1:] != b[1:]:
                    ok = False
        cls = ("fault" if expected[1] is not None else "clean") + "-items%d" % min(len(expected[0]), 2)
        return ok, cls, got, expected

    def mk(mode):
        def h(textdata: str):
            assume(len(textdata) <= maxlen)
            ok, cls, _, _ = go(textdata, False)
            return ok, cls

        return h

    def replay(args):
        ok, cls, got, expected = go(args["textdata"], True)
        return (not ok), "fixed CID after %s, then reading %r -> %r ; under a fresh CID -> %r" % (
            hop, args["textdata"], got, expected), "history-independence"

    return mk, replay


def build(tier, seed):
    queries = []
    for op in OPS:
        for nrows in ((2,) if tier == "quick" else (2, 3)):
            if op == "reader-unclosed-then-close" and nrows == 3:
                continue
            mk, rp = make(op, nrows)
            queries.append(Query("C08/%s/rows=%d" % (op, nrows), "one-step", mk,
                                 "arbitrary pre-state of IsUnique (subset of {a,b} at any row) and DistinctCount (any "
                                 "positive counts), then %s on %d rows (key in {a,b,c}, value len<=1, header 0..n, limit none/0..n, all symbolic)"
                                 % (op, nrows), budget_s=900 if tier == "quick" else 3000, per_path_timeout=120,
                                 replay=rp, functions=FUNCS,
                                 stubs=("S-ROWS", "S-FMT") + (("row writer replaced by a recorder",) if op == "writer" else ())))
    pairs = [("reader-unclosed", "rows-yield"), ("rows-yield", "writer"), ("writer-unclosed", "rows-yield"), ("rows-raise", "validate")]
    if tier == "thorough":
        pairs = [(a, b) for a in HISTORY_OPS for b in ("rows-yield", "rows-raise", "validate", "writer", "reader-late")]
    for hop, op in pairs:
        mk, rp = make_two_runs(hop, op)
        queries.append(Query("C08/two-runs/%s/then/%s" % (hop, op), "two-runs", mk,
                             "a real earlier run (%s, 2 rows, keys a/b/c) followed by %s on 2 rows (keys a/b/c, value len<=1), "
                             "header 0..2, all symbolic" % (hop, op), budget_s=900 if tier == "quick" else 3000,
                             per_path_timeout=120, replay=rp, functions=FUNCS, stubs=("S-ROWS", "S-FMT")))
    # the order in which the checks of a CID judge a row is the order of declaration in every run (a duplicate
    # row never reaches the later-declared DistinctCount of another field)
    for hop, op in (("rows-yield", "rows-yield"), ("writer", "rows-yield")) + ((("rows-raise", "validate"), ("rows-yield", "writer")) if tier == "thorough" else ()):
        mk, rp = make_two_runs(hop, op, CID_TEXT_VALUE_COUNT, (120, 121))
        queries.append(Query("C08/two-runs-check-order/%s/then/%s" % (hop, op), "two-runs", mk,
                             "IsUnique k declared before DistinctCount v <= 1: a real earlier run (%s) then %s on 2 rows (keys a/b/c, "
                             "values x/y), header 0..2, all symbolic" % (hop, op), budget_s=900, per_path_timeout=120, replay=rp,
                             functions=FUNCS, stubs=("S-ROWS", "S-FMT")))
    # a run that validates no row at all after a real earlier run: the end-of-data error (type, location, see-also,
    # text) is the one a fresh CID gives; and the same rejected value met again gives the same error text
    for hop, op in (("rows-yield", "reader-late"), ("rows-yield", "rows-yield")):
        mk, rp = make_two_runs(hop, op, CID_TEXT_AT_LEAST_ONE)
        queries.append(Query("C08/two-runs-error-text/%s/then/%s" % (hop, op), "two-runs", mk,
                             "IsUnique k + DistinctCount k >= 1 (fails on no data): a real earlier run (%s) then %s on 2 rows, header 0..2 "
                             "(2 = no row validated); errors compared with their text and see-also location" % (hop, op),
                             budget_s=900, per_path_timeout=120, replay=rp, functions=FUNCS, stubs=("S-ROWS", "S-FMT")))
    for hop in FIXED_HISTORY:
        ml = 6 if tier == "quick" else 8
        mk, rp = make_fixed_two_runs(hop, ml)
        queries.append(Query("C08/two-runs-fixed/%s/then/read" % hop, "two-runs-fixed", mk,
                             "fixed format, line delimiter any: a concrete earlier run (%s) then Reader(on_error='yield') over "
                             "the real fixed_rows on every text of length <= %d" % (hop, ml), budget_s=600 if tier == "quick" else 2400,
                             per_path_timeout=120, replay=rp, expect=("clean-items2", "fault-items0"),
                             functions=FUNCS + ("cutplace.rowio.fixed_rows", "cutplace.rowio.FixedRowWriter.__init__",
                                                "cutplace.rowio.FixedRowWriter.write_row"), stubs=("S-STREAM", "S-FMT")))
    return dict(queries=queries,
                assumptions=["representation invariant of the built-in checks: the IsUnique map holds key tuples of the "
                             "declared arity mapped to locations, the DistinctCount map holds positive counts",
                             "runs are sequential (two validators consuming one CID at the same time share its check "
                             "state by design)"],
                outside_claim=["more than 3 rows per operation", "plugins with their own state", "interleaved runs"],
                exhaustive=False)


def replay_case(case):
    for tier in ("quick", "thorough"):
        for q in build(tier, 0)["queries"]:
            if q.qid == case.get("query"):
                rep, detail, _ = q.replay(case["args"])
                return rep, detail
    return False, "no such query"
