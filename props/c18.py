"""C18  The command line's exit code reflects the validation outcome.  (DESIGN.md section 6, C18)

applications.main / process / CutplaceApp with option parsing stubbed (S-ARGS) and the CID loader / Reader replaced
by stubs whose outcome per file is symbolic.  ('--until' is decided in C07.)"""
from vlib.engine import Query, assume
from vlib.envstubs import patched
from vlib import rowflow as rf

FUNCS = ("cutplace.applications.main", "cutplace.applications.process", "cutplace.applications.CutplaceApp.set_options",
         "cutplace.applications.CutplaceApp.validate")
OUTCOMES = ("accepted", "data-error", "check-error-at-close", "unreadable")
CID_OUTCOMES = ("loads", "interface-error", "unreadable")


def make(max_files):
    def go(n, cid_outcome, outcomes):
        import argparse
        import logging
        from cutplace import applications, errors, validio

        paths = ["data%d.csv" % i for i in range(n)]
        ns = argparse.Namespace(is_create_sql=False, is_gui=False, log_level="critical", plugins_folder=None,
                                validate_until=-1, cid_path="cid.csv", data_paths=paths)
        validated = []

        def set_cid(self, cid_path):
            if cid_outcome == 1:
                raise errors.InterfaceError("broken CID (stub)")
            if cid_outcome == 2:
                raise OSError("cannot read CID (stub)")
            self.cid = object()
            self.cid_path = cid_path

        class FakeReader:
            def __init__(self, cid, data_path, validate_until=None, **kw):
                self.path = data_path
                self.accepted_rows_count = 0
                self.outcome = outcomes[paths.index(data_path)]

            def __enter__(self):
                return self

            def __exit__(self, exc_type, exc, tb):
                if exc_type is None and self.outcome == 2:
                    raise errors.CheckError("end-of-data check failed (stub)")
                return False

            def validate_rows(self):
                validated.append(self.path)
                if self.outcome == 1:
                    raise errors.FieldValueError("rejected row (stub)")
                if self.outcome == 3:
                    raise OSError("cannot read data (stub)")

        with patched(rf.smart_repr(),
                     (argparse.ArgumentParser, "parse_args", lambda self, argv=None: ns),
                     (argparse.ArgumentParser, "_print_message", lambda self, message, file=None: None),
                     (applications.CutplaceApp, "set_cid_from_path", set_cid),
                     (applications.validio, "Reader", FakeReader),
                     (applications._log, "disabled", True)):
            try:
                code = applications.main(["cutplace", "cid.csv"] + paths)
            except SystemExit as e:
                code = ("exit", e.code)
        # expectation
        if cid_outcome == 1:
            allowed = (1,)
            should_validate = []
        elif cid_outcome == 2:
            allowed = (3,)
            should_validate = []
        else:
            outs = [outcomes[i] for i in range(n)]
            rejected = any(o in (1, 2) for o in outs)
            unreadable = any(o == 3 for o in outs)
            # "3 when a named file cannot be read" is unconditional; a verdict of 1 presupposes that every named file
            # could be judged (this is also what the pinned tree does, in either order)
            if unreadable:
                allowed = (3,)
            elif rejected:
                allowed = (1,)
            else:
                allowed = (0,)
            should_validate = []
            for i in range(n):
                should_validate.append(paths[i])
                if outs[i] == 3:
                    break
        ok = code in allowed
        if ok and cid_outcome == 0:
            # every file up to the first unreadable one is judged, in order, whatever happened to the earlier ones
            ok = len(validated) >= len(should_validate) and validated[:len(should_validate)] == should_validate
        cls = "code%s" % (code if isinstance(code, int) else "exit")
        return ok, cls, code, allowed, validated

    def mk(mode):
        def h(n: int, cid_outcome: int, o0: int, o1: int, o2: int):
            assume(0 <= n <= max_files and 0 <= cid_outcome <= 2)
            for o in (o0, o1, o2):
                assume(0 <= o <= 3)
            ok, cls, _, _, _ = go(n, cid_outcome, [o0, o1, o2])
            return ok, cls

        return h

    def replay(args):
        """real files, real option parsing, real CID loader and Reader"""
        import contextlib
        import io
        import os
        import shutil
        import tempfile
        from cutplace import applications
        d = tempfile.mkdtemp()
        try:
            cid_path = os.path.join(d, "cid.csv")
            if args["cid_outcome"] == 0:
                open(cid_path, "w").write("d,format,delimited\nf,k,,,1\nc,u,IsUnique,k\nc,dc,DistinctCount,k < 3\n")
            elif args["cid_outcome"] == 1:
                open(cid_path, "w").write("d,format,nonsense\nf,k\n")
            paths = []
            outs = [args["o0"], args["o1"], args["o2"]][:args["n"]]
            for i, o in enumerate(outs):
                p = os.path.join(d, "data%d.csv" % i)
                if o == 0:
                    open(p, "w").write("a\nb\n")
                elif o == 1:
                    open(p, "w").write("a\ntoolong\n")
                elif o == 2:
                    open(p, "w").write("a\nb\nc\n")  # 3 distinct values: the end-of-data check fails
                paths.append(p)
            import logging
            judged = []

            class Capture(logging.Handler):
                def emit(self, record):
                    msg = record.getMessage()
                    if msg.startswith('validate "'):
                        judged.append(msg[len('validate "'):-1])

            handler = Capture()
            logger = logging.getLogger("cutplace")
            logger.addHandler(handler)
            try:
                with contextlib.redirect_stderr(io.StringIO()):
                    try:
                        code = applications.main(["cutplace", "--log", "info", cid_path] + paths)
                    except SystemExit as e:
                        code = ("exit", e.code)
            finally:
                logger.removeHandler(handler)
            should_judge = []
            if args["cid_outcome"] == 1:
                allowed = (1,)
            elif args["cid_outcome"] == 2:
                allowed = (3,)
            else:
                rejected = any(o in (1, 2) for o in outs)
                unreadable = any(o == 3 for o in outs)
                allowed = (3,) if unreadable else (1,) if rejected else (0,)
                for pth, o in zip(paths, outs):
                    should_judge.append(pth)
                    if o == 3:
                        break
            bad = code not in allowed or judged[:len(should_judge)] != should_judge
            return bad, "CID %s, files %r -> exit code %r (expected one of %r); files judged according to the log: %d of %d expected" % (
                CID_OUTCOMES[args["cid_outcome"]], [OUTCOMES[o] for o in outs], code, allowed, len(judged), len(should_judge)), "exit-code"
        finally:
            shutil.rmtree(d)

    return mk, replay


def native_end_to_end(tier):
    """real files, real argv parsing; main() in-process (quick) and python -m cutplace.applications as a subprocess
    (thorough) -- exploration, not a solver verdict"""
    import contextlib
    import io
    import itertools
    import os
    import shutil
    import subprocess
    import sys
    import tempfile
    from cutplace import applications
    from cutplace import validio, errors as cerrors
    failures = []
    samples = []
    n = 0
    d = tempfile.mkdtemp()
    try:
        good_cid = os.path.join(d, "cid.csv")
        open(good_cid, "w").write("d,format,delimited\nf,k,,,1\nc,u,IsUnique,k\n")
        bad_cid = os.path.join(d, "bad_cid.csv")
        open(bad_cid, "w").write("d,format,nonsense\nf,k\n")
        files = {"accepted": "a\nb\n", "rejected-field": "a\ntoolong\n", "rejected-unique": "a\na\n", "sibling-keys": "b\na\n"}
        paths = {}
        for name, text in files.items():
            paths[name] = os.path.join(d, name + ".csv")
            open(paths[name], "w").write(text)
        # files the container reader itself gives up on (exit code 1 like any rejected file, never an internal error)
        broken = {"rejected-undecodable-byte-early": b"\x81\n", "rejected-unterminated-quote": b'a\n"b\n'}
        for name, payload in broken.items():
            paths[name] = os.path.join(d, name + ".csv")
            open(paths[name], "wb").write(payload)
        paths["missing"] = os.path.join(d, "no-such-file.csv")
        paths["directory"] = d

        def expected(cid, names):
            if cid == "missing":
                return (3,)
            if cid == "rejected":
                return (1,)
            rej = any(x.startswith("rejected") for x in names)
            unread = any(x in ("missing", "directory") for x in names)
            return (3,) if unread else (1,) if rej else (0,)

        combos = []
        names = list(paths)
        for k in (0, 1, 2):
            for combo in itertools.permutations(names, k):
                combos.append(combo)
        if tier == "quick":
            k1 = 1 + len(names)
            combos = combos[:k1] + combos[k1::5]
        for cid_kind, cid_path in (("valid", good_cid), ("rejected", bad_cid), ("missing", os.path.join(d, "nocid.csv"))):
            for combo in (combos if cid_kind == "valid" else combos[:3]):
                n += 1
                argv = ["cutplace", "--log", "critical", cid_path] + [paths[x] for x in combo]
                with contextlib.redirect_stderr(io.StringIO()):
                    try:
                        code = applications.main(argv)
                    except SystemExit as e:
                        code = "exit%s" % e.code
                exp = expected(cid_kind, combo)
                if code not in exp:
                    failures.append(dict(key="exit-code-e2e", what="CID %s, files %r -> exit code %r, expected one of %r" % (
                        cid_kind, combo, code, exp), args=dict(cid=cid_kind, files=list(combo))))
                elif len(samples) < 2:
                    samples.append(dict(query="native/e2e", cid=cid_kind, files=list(combo), exit_code=code))
        # the container reader gives up far into a large file (beyond the first decoded block): still exit code 1
        plain_cid = os.path.join(d, "plain_cid.csv")
        open(plain_cid, "w").write("d,format,delimited\nf,k,,,1\nf,v,,X\n")
        many = b"".join(b"a,%d\n" % i for i in range(5000))
        late = {"undecodable byte late": many + b"a,\x81\n" + b"b,\n", "unterminated quote late": many + b'a,"x\n',
                "undecodable byte inside a quoted multi-line cell": many + b'a,"x\ny\x81"\n', "healthy": many,
                "NUL late": many + b"a,\x00\n"}
        for name, payload in late.items():
            n += 1
            lp = os.path.join(d, "late.csv")
            open(lp, "wb").write(payload)
            try:
                validio.validate(plain_cid, lp)
                exp = 0
            except cerrors.DataError:
                exp = 1
            except Exception as e:  # noqa
                failures.append(dict(key="exit-code-e2e", what="large file (%s): validate() raised %s: %s" % (name, type(e).__name__, e),
                                     args=dict(case=name)))
                exp = 1
            for argv_files in ([lp], [paths["accepted"], lp]):
                with contextlib.redirect_stderr(io.StringIO()):
                    try:
                        code = applications.main(["cutplace", "--log", "critical", plain_cid] + argv_files)
                    except SystemExit as e:
                        code = "exit%s" % e.code
                expc = exp if argv_files == [lp] else max(exp, 1)  # 'accepted' has one column: rejected under this CID
                if code != expc:
                    failures.append(dict(key="exit-code-e2e", what="large file (%s) -> exit code %r, expected %r (the API %s it)" % (
                        name, code, expc, "rejects" if exp else "accepts"), args=dict(case=name)))
        # a CID the container reader gives up on is a rejected CID (exit code 1), like one with a broken declaration
        bad_cids = {"latin1_in_utf8.csv": "d,format,delimited\nf,stra\u00dfe\n".encode("latin-1"), "unterminated_quote.csv": b'd,format,delimited\nf,"k\n',
                    "not_a_spreadsheet.ods": b"d,format,delimited\nf,k\n", "not_a_workbook.xlsx": b"d,format,delimited\nf,k\n",
                    "truncated.ods": b"PK\x03\x04" + b"\x00" * 30, "empty.csv": b"", "only_comments.csv": b",a comment\n\n"}
        for fname, payload in bad_cids.items():
            n += 1
            cp = os.path.join(d, "badcid_" + fname)
            open(cp, "wb").write(payload)
            for files in ([], [paths["accepted"]]):
                with contextlib.redirect_stderr(io.StringIO()):
                    try:
                        code = applications.main(["cutplace", "--log", "critical", cp] + files)
                    except SystemExit as e:
                        code = "exit%s" % e.code
                if code != 1:
                    failures.append(dict(key="exit-code-e2e", what="CID file %s (cannot be read as a CID) with %d data file(s) -> exit code %r, expected 1" % (
                        fname, len(files), code), args=dict(cid=fname)))
        # odd files and odd file names: every named file is judged, and judged as the API judges it
        cids = {"plain": "d,format,delimited\nf,k,,,1\n", "needs a row": "d,format,delimited\nf,k,,,1\nc,some,DistinctCount,k >= 1\n",
                "header": "d,format,delimited\nd,header,1\nf,k,,,1\n", "ods": "d,format,ods\nf,k,,,1\n", "excel": "d,format,excel\nf,k,,,1\n",
                "fixed": "d,format,fixed\nf,k,,,1\n"}
        odd = {"empty.csv": b"", "newline.csv": b"\n", "blank.csv": b" ", "branches[1].csv": b"toolong\n", "what?.csv": b"toolong\n",
               "star*.csv": b"toolong\n", "good[2].csv": b"a\n", "-.csv": b"a\n", "sp ace.csv": b"toolong\n", "UPPER.CSV": b"toolong\n"}
        odd_dir = os.path.join(d, "odd")
        os.mkdir(odd_dir)
        for fname, payload in odd.items():
            open(os.path.join(odd_dir, fname), "wb").write(payload)
        for cname, ctext in cids.items():
            cpath = os.path.join(d, "odd_cid.csv")
            open(cpath, "w").write(ctext)
            for fname in odd:
                fpath = os.path.join(odd_dir, fname)
                n += 1
                try:
                    validio.validate(cpath, fpath)
                    exp = 0
                except cerrors.DataError:
                    exp = 1
                except Exception as e:  # noqa
                    failures.append(dict(key="exit-code-e2e", what="CID %s, file %r: validate() raised %s: %s" % (cname, fname, type(e).__name__, e),
                                         args=dict(cid=cname, file=fname)))
                    continue
                for argv_files, expc in (([fpath], exp), ([paths["accepted"], fpath], None)):
                    if expc is None:
                        try:
                            validio.validate(cpath, paths["accepted"])
                            expc = exp
                        except cerrors.DataError:
                            expc = 1
                    with contextlib.redirect_stderr(io.StringIO()):
                        try:
                            code = applications.main(["cutplace", "--log", "critical", cpath] + argv_files)
                        except SystemExit as e:
                            code = "exit%s" % e.code
                    if code != expc:
                        failures.append(dict(key="exit-code-e2e", what="CID %s, files %r -> exit code %r, expected %r (what the API says about each file)" % (
                            cname, [os.path.basename(x) for x in argv_files], code, expc), args=dict(cid=cname, file=fname)))
        for missing in ("missing?.csv", "incoming_*.csv", "no[such].csv"):
            n += 1
            open(cpath, "w").write(cids["plain"])
            with contextlib.redirect_stderr(io.StringIO()):
                try:
                    code = applications.main(["cutplace", "--log", "critical", cpath, os.path.join(odd_dir, "nowhere", missing)])
                except SystemExit as e:
                    code = "exit%s" % e.code
            if code != 3:
                failures.append(dict(key="exit-code-e2e", what="missing file named %r -> exit code %r, expected 3" % (missing, code), args=dict(file=missing)))
        # an unreadable file stays exit code 3 whatever the end-of-data checks of the CID would say about no data
        strict_cid = os.path.join(d, "strict_cid.csv")
        open(strict_cid, "w").write("d,format,delimited\nf,k,,,1\nc,some,DistinctCount,k >= 1\n")
        for combo, exp in ((("missing",), (3,)), (("accepted", "missing"), (3,)), (("accepted",), (0,))):
            n += 1
            with contextlib.redirect_stderr(io.StringIO()):
                code = applications.main(["cutplace", "--log", "critical", strict_cid] + [paths[x] for x in combo])
            if code not in exp:
                failures.append(dict(key="exit-code-e2e", what="CID with 'DistinctCount k >= 1', files %r -> exit code %r, "
                                     "expected one of %r" % (combo, code, exp), args=dict(files=list(combo))))
        # a file holding only its header row after a full file: judged on its own (no distinct values at all)
        hcid = os.path.join(d, "header_cid.csv")
        open(hcid, "w").write("d,format,delimited\nd,header,1\nf,branch,,,1\nc,branches,DistinctCount,branch >= 2\n")
        full = os.path.join(d, "full.csv")
        open(full, "w").write("branch\na\nb\n")
        honly = os.path.join(d, "header_only.csv")
        open(honly, "w").write("branch\n")
        for combo, exp in (((full,), 0), ((honly,), 1), ((full, honly), 1), ((honly, full), 1)):
            n += 1
            with contextlib.redirect_stderr(io.StringIO()):
                code = applications.main(["cutplace", "--log", "critical", hcid] + list(combo))
            if code != exp:
                failures.append(dict(key="exit-code-e2e", what="header CID with DistinctCount >= 2, files %r -> exit code %r, expected %r" % (
                    [os.path.basename(x) for x in combo], code, exp), args=dict(files=[os.path.basename(x) for x in combo])))
        # --until N has the effect of the API's validate_until=N, whatever the header
        for header in (0, 1, 2):
            ucid = os.path.join(d, "until_cid_%d.csv" % header)
            open(ucid, "w").write("d,format,delimited\nd,header,%d\nf,k,,,1\n" % header)
            for bad_row in (1, 2, 3, 4, 6):
                udata = os.path.join(d, "until_data.csv")
                open(udata, "w").write("".join("toolong\n" if i == bad_row else "a\n" for i in range(1, 7)))
                for until in (-1, 0, 1, 2, 3, 4, 5, 6, 7):
                    n += 1
                    try:
                        validio.validate(ucid, udata, validate_until=None if until == -1 else until)
                        exp = 0
                    except cerrors.DataError:
                        exp = 1
                    with contextlib.redirect_stderr(io.StringIO()):
                        code = applications.main(["cutplace", "--log", "critical", "--until", str(until), ucid, udata])
                    if code != exp:
                        failures.append(dict(key="exit-code-until", what="header %d, bad row %d, --until %d -> exit code %r; "
                                             "validate(validate_until=...) says %r" % (header, bad_row, until, code, exp),
                                             args=dict(header=header, bad_row=bad_row, until=until)))
        lim = os.path.join(d, "limit.csv")
        open(lim, "w").write("a\nb\ntoolong\nc\n")
        for until, exp in ((None, 1), (-1, 1), (0, 0), (1, 0), (2, 0), (3, 1), (9, 1)):
            n += 1
            argv = ["cutplace", "--log", "critical"] + ([] if until is None else ["--until", str(until)]) + [good_cid, lim]
            with contextlib.redirect_stderr(io.StringIO()):
                code = applications.main(argv)
            if code != exp:
                failures.append(dict(key="exit-code-until", what="--until %r with a bad row 3 -> exit code %r, expected %r" % (until, code, exp),
                                     args=dict(until=until)))
        for bad in ("-2", "x", ""):
            n += 1
            with contextlib.redirect_stderr(io.StringIO()):
                try:
                    code = applications.main(["cutplace", "--until", bad, good_cid, lim])
                except SystemExit as e:
                    code = "exit%s" % e.code
            if code != "exit2":
                failures.append(dict(key="exit-code-until", what="--until %r -> %r, expected exit code 2" % (bad, code), args=dict(until=bad)))
        if tier == "thorough":
            env = dict(os.environ, PYTHONPATH=os.environ.get("VERIF_REPO", "/repo"))
            for combo, exp in (((), (0,)), (("accepted",), (0,)), (("rejected-field", "accepted"), (1,)), (("missing",), (3,)),
                               (("accepted", "rejected-unique"), (1,))):
                n += 1
                r = subprocess.run([sys.executable, "-m", "cutplace.applications", good_cid] + [paths[x] for x in combo],
                                   env=env, capture_output=True, timeout=120)
                if r.returncode not in exp:
                    failures.append(dict(key="exit-code-subprocess", what="subprocess with files %r -> %d, expected %r" % (combo, r.returncode, exp),
                                         args=dict(files=list(combo))))
            n += 1
            r = subprocess.run([sys.executable, "-m", "cutplace.applications"], env=env, capture_output=True, timeout=120)
            if r.returncode != 2:
                failures.append(dict(key="exit-code-subprocess", what="subprocess without arguments -> %d, expected 2" % r.returncode, args={}))
    finally:
        shutil.rmtree(d)
    return dict(count=n, failures=failures, samples=samples)


def build(tier, seed):
    mk, rp = make(3)
    q = [Query("C18/aggregation/files<=3", "exit-code", mk,
               "0..3 data files, each outcome in %r, CID outcome in %r, all symbolic" % (OUTCOMES, CID_OUTCOMES),
               budget_s=600, per_path_timeout=60, expect=("code0", "code1", "code3"), replay=rp, functions=FUNCS,
               stubs=("S-ARGS argparse parse_args -> Namespace", "CutplaceApp.set_cid_from_path -> loads / InterfaceError / "
                      "OSError", "validio.Reader -> accepted / FieldValueError / CheckError at close / OSError"))]
    from props.c07 import make_until
    mk2, rp2 = make_until()
    q.append(Query("C18/until-option", "until", mk2, "--until value n: every integer (same query as in C07)", budget_s=120,
                   expect=("exit2", "all", "zero", "some"), replay=rp2, functions=FUNCS,
                   stubs=("S-ARGS argparse.ArgumentParser.parse_args -> Namespace with symbolic validate_until",
                          "CutplaceApp.set_cid_from_path -> recorder")))
    return dict(queries=q, native=lambda: native_end_to_end(tier),
                assumptions=["an unreadable file surfaces as OSError from the reader / CID loader",
                             "when a rejected and an unreadable file are both present either 1 or 3 is accepted (the property "
                             "does not rank them)"],
                outside_claim=["argv parsing (argparse), the file system, subprocess behaviour, exit code 2",
                               "independence of the files' verdicts from each other: C08"],
                exhaustive=True)


def replay_case(case):
    for q in build("quick", 0)["queries"]:
        if q.qid == case.get("query"):
            rep, detail, _ = q.replay(case["args"])
            return rep, detail
    return False, "no such query"
