"""C09  CIDs are accepted iff structurally sound; rejections name the offending row.  (DESIGN.md section 6, C09)

Claimed by the solver: (1) row dispatch and row numbering of Cid.read, (2) field names, (3) length admissibility.
The catalogue of structural defects and the meaning-preserving rewrites are tokenizer-bound text and are exercised
natively (concrete CIDs; no quantifier for a solver)."""
from vlib.engine import Query, assume
from vlib.envstubs import patched
from vlib import rowflow as rf
from props.c01 import direct_range, expected_limits

FUNCS = ("cutplace.interface.Cid.read", "cutplace.interface.Cid.add_field_format_row",
         "cutplace.fields.validated_field_name", "cutplace.interface.Cid.add_data_format_row",
         "cutplace.interface.Cid.add_check_row")


# ------------------------------------------------------------------ (1) dispatch
def make_dispatch(nrows, mlen=2):
    def go(markers, empties):
        from cutplace import interface, errors, data

        for m in markers[:nrows]:
            assume(len(m) <= mlen)
            for c in m:
                assume(ord(c) < 128)
        with rf.untraced():
            cid = interface.Cid()
        calls = []

        def rec(kind):
            def handler(row_data):
                calls.append((kind, row_data, cid._location.line))
                if kind == "d" and cid._data_format is None:
                    cid._data_format = data.DataFormat("delimited")
                if kind == "f":
                    cid._field_names.append("f%d" % len(cid._field_names))
            return handler

        cid.add_data_format_row = rec("d")
        cid.add_field_format_row = rec("f")
        cid.add_check_row = rec("c")
        rows = []
        expected = []
        bad_line = None
        for i in range(nrows):
            if empties[i]:
                rows.append([])
                continue
            m = markers[i]
            rows.append([m, "c1", "c2", "c3", "c4", "c5", "c6", "c7", "c8"] if i % 2 == 0 else [m, "only"])
            # reference: strip blanks (and other ASCII white space), lower-case
            j, k = 0, len(m)
            while j < k and (ord(m[j]) == 32 or 9 <= ord(m[j]) <= 13 or 28 <= ord(m[j]) <= 31):
                j += 1
            while k > j and (ord(m[k - 1]) == 32 or 9 <= ord(m[k - 1]) <= 13 or 28 <= ord(m[k - 1]) <= 31):
                k -= 1
            core = m[j:k]
            if len(core) == 0:
                continue
            kind = None
            if len(core) == 1:
                o = ord(core[0])
                o = o + 32 if 65 <= o <= 90 else o
                kind = {100: "d", 102: "f", 99: "c"}.get(o)
            if kind is None:
                if bad_line is None:
                    bad_line = i
                break
            data6 = (["c1", "c2", "c3", "c4", "c5", "c6"] if i % 2 == 0 else ["only", "", "", "", "", ""])
            expected.append((kind, data6, i))
        tail = [["d", "format", "delimited"], ["f", "x"]]
        if bad_line is None:
            expected.append(("d", ["format", "delimited", "", "", "", ""], nrows))
            expected.append(("f", ["x", "", "", "", "", ""], nrows + 1))
        with patched(rf.smart_repr()):
            try:
                cid.read("<harness>", rows + tail)
                failed_at = None
            except errors.InterfaceError as e:
                failed_at = e.location.line if e.location is not None else -1
        if bad_line is not None:
            return failed_at == bad_line and calls == expected, "rejected"
        return failed_at is None and calls == expected, "dispatched"

    def mk(mode):
        def h(m0: str, m1: str, m2: str, m3: str, e0: bool, e1: bool, e2: bool, e3: bool):
            return go([m0, m1, m2, m3], [e0, e1, e2, e3])

        return h

    return mk


def make_numbering(nrows):
    """row numbering: every row is (symbolically) empty / a comment / a field row / a row with an unknown marker"""

    def go(kinds):
        from cutplace import interface, errors, data

        for k in kinds[:nrows]:
            assume(0 <= k <= 3)
        with rf.untraced():
            cid = interface.Cid()
        calls = []

        def rec(kind):
            def handler(row_data):
                calls.append((kind, cid._location.line))
                if kind == "d" and cid._data_format is None:
                    cid._data_format = data.DataFormat("delimited")
                if kind == "f":
                    cid._field_names.append("f%d" % len(cid._field_names))
            return handler

        cid.add_data_format_row = rec("d")
        cid.add_field_format_row = rec("f")
        cid.add_check_row = rec("c")
        rows = [["D", "format", "delimited"]]
        expected = [("d", 0)]
        bad_line = None
        for i in range(nrows):
            k = kinds[i]
            if k == 0:
                rows.append([])
            elif k == 1:
                rows.append(["", "comment"])
            elif k == 2:
                rows.append([" F", "name"])
                if bad_line is None:
                    expected.append(("f", i + 1))
            else:
                rows.append(["x", "?"])
                if bad_line is None:
                    bad_line = i + 1
        rows.append(["f", "last"])
        if bad_line is None:
            expected.append(("f", nrows + 1))
        with patched(rf.smart_repr()):
            try:
                cid.read("<harness>", rows)
                failed_at = None
            except errors.InterfaceError as e:
                failed_at = e.location.line if e.location is not None else -1
        if bad_line is not None:
            return failed_at == bad_line and calls == expected, "rejected"
        return failed_at is None and calls == expected, "dispatched"

    def mk(mode):
        def h(k0: int, k1: int, k2: int, k3: int, k4: int):
            return go([k0, k1, k2, k3, k4])

        return h

    return mk


# ------------------------------------------------------------------ (2) field names
NAME_ALPHABET = [ord(c) for c in "aifsA1_ -"] + [0xE9]
NAME_ALPHABET_SMALL = [ord(c) for c in "ifs 1"] + [0xE9]
KEYWORDS3 = ("if", "is", "as")


def make_field_name(maxlen, alphabet=None):
    alphabet = alphabet or NAME_ALPHABET

    def go(name):
        from cutplace import fields, errors

        assume(len(name) <= maxlen)
        for c in name:
            o = ord(c)
            member = False
            for a in alphabet:
                if o == a:
                    member = True
            assume(member)
        j, k = 0, len(name)
        while j < k and ord(name[j]) == 32:
            j += 1
        while k > j and ord(name[k - 1]) == 32:
            k -= 1
        core = name[j:k]
        ok = len(core) > 0
        for idx in range(len(core)):
            o = ord(core[idx])
            letter = 65 <= o <= 90 or 97 <= o <= 122
            if idx == 0:
                ok = ok and letter
            else:
                ok = ok and (letter or 48 <= o <= 57 or o == 95)
        if ok:
            for kw in KEYWORDS3:
                if len(core) == len(kw) and all(ord(core[x]) == ord(kw[x]) for x in range(len(kw))):
                    ok = False
        with patched(rf.smart_repr()):
            try:
                result = fields.validated_field_name(name)
                accepted = True
            except errors.InterfaceError:
                accepted = False
                result = None
        if accepted != ok:
            return False, "verdict"
        if accepted:
            if len(result) != len(core):
                return False, "result"
            for x in range(len(core)):
                if ord(result[x]) != ord(core[x]):
                    return False, "result"
        return True, ("accepted" if ok else "refused")

    def mk(mode):
        def h(name: str):
            return go(name)

        return h

    return mk


# ------------------------------------------------------------------ (3) length admissibility
CURRENT = {"range": None}
_cls = []


def direct_len_class():
    from cutplace import fields
    if _cls and fields.AbstractFieldFormat not in _cls[0].__mro__:
        del _cls[:]
    if not _cls:
        class DirectLenFieldFormat(fields.AbstractFieldFormat):
            def __init__(self, field_name, is_allowed_to_be_empty, length, rule, data_format):
                super().__init__(field_name, is_allowed_to_be_empty, "", rule, data_format, empty_value="")
                self._length = CURRENT["range"]

            def validated_value(self, value):
                return value

        _cls.append(DirectLenFieldFormat)
    return _cls[0]


def make_length(fmt, kinds):
    """kinds: tuple of 'c' (closed lo..hi), 'x' (exact), 'lo' (open low), 'hi' (open high), or () for 'no length'"""

    def go(a0, b0, a1, b1):
        from cutplace import interface, errors

        direct_len_class()
        nums = [(a0, b0), (a1, b1)]
        items = []
        for kind, (a, b) in zip(kinds, nums):
            if kind == "c":
                assume(a <= b)
                items.append((a, b))
            elif kind == "x":
                items.append((a, a))
            elif kind == "lo":
                items.append((None, b))
            else:
                items.append((a, None))
        if len(items) == 2:
            (alo, ahi), (blo, bhi) = items
            assume((ahi is not None and blo is not None and ahi < blo) or (bhi is not None and alo is not None and bhi < alo))
        if items:
            rng = direct_range(items)
            rng._lower_limit, rng._upper_limit = expected_limits(items)
        else:
            from cutplace import ranges
            rng = ranges.Range("")
        CURRENT["range"] = rng
        with rf.untraced():
            cid = interface.Cid()
            cid._location = __import__("cutplace").errors.Location("<harness>", has_cell=True)
            cid.add_data_format_row(["format", fmt])
        # what the property says
        if fmt == "fixed":
            ok = len(items) == 1 and items[0][0] is not None and items[0][1] is not None and items[0][0] == items[0][1] \
                and items[0][0] >= 1
            if len(items) == 2 and items[0][0] is not None and items[0][0] == items[0][1] and items[1][0] is not None \
                    and items[1][0] == items[1][1] and items[0][0] == items[1][0]:
                assume(False)  # two items denoting the same single length overlap: not well-formed
        else:
            # documented rule: a negative lower limit or, with an open lower side, a negative upper limit is refused
            # (limits = overall minimum / maximum of the range; items that can never match are not a finding)
            lower, upper = expected_limits(items) if items else (None, None)
            ok = not ((lower is not None and lower < 0) or (lower is None and upper is not None and upper < 0))
        with patched(rf.smart_repr()):
            try:
                cid.add_field_format_row(["x", "", "", "<direct>", "DirectLen", ""])
                accepted = True
                cell = None
            except errors.InterfaceError as e:
                accepted = False
                cell = e.location.cell if e.location is not None else None
        if accepted != ok:
            return False, "verdict"
        if not accepted and cell != 4:
            return False, "cell"
        return True, ("accepted" if ok else "refused")

    def mk(mode):
        def h(a0: int, b0: int, a1: int, b1: int):
            return go(a0, b0, a1, b1)

        return h

    def replay(args):
        """through a real CID with the length written as text"""
        from cutplace import interface, errors
        from props.c01 import describe
        nums = [(args["a0"], args["b0"]), (args["a1"], args["b1"])]
        items = []
        for kind, (a, b) in zip(kinds, nums):
            items.append({"c": (a, b), "x": (a, a), "lo": (None, b), "hi": (a, None)}[kind])
        text = describe(items) if items else ""
        cid_text = "d,format,%s\nf,x,,,\"%s\",Text\n" % (fmt, text)
        if fmt == "fixed":
            ok = len(items) == 1 and None not in items[0] and items[0][0] == items[0][1] and items[0][0] >= 1
        else:
            lower, upper = expected_limits(items) if items else (None, None)
            ok = not ((lower is not None and lower < 0) or (lower is None and upper is not None and upper < 0))
        try:
            interface.create_cid_from_string(cid_text)
            accepted = True
            where = None
        except errors.InterfaceError as e:
            accepted = False
            where = (e.location.line, e.location.cell) if e.location is not None else None
        except Exception as e:  # noqa
            return True, "CID %r raised %s: %s" % (cid_text, type(e).__name__, e), "cid-length"
        bad = accepted != ok or (not accepted and where is not None and where[0] != 1)
        return bad, "format %s, length %r: accepted=%s (error at %r), expected accepted=%s" % (fmt, text, accepted, where, ok), \
            "cid-length"

    return mk, replay


# ------------------------------------------------------------------ native: rewrites and defect catalogue
BASE = [
    ["d", "format", "delimited"],
    ["d", "header", "1"],
    ["d", "item delimiter", ";"],
    ["f", "customer_id", "12", "", "1...5", "Integer", "0...99999"],
    ["f", "surname", "Miller", "X", "...60", "Text", ""],
    ["f", "gender", "male", "", "", "Choice", "female, male"],
    ["f", "born", "", "X", "", "DateTime", "DD.MM.YYYY"],
    ["c", "id must be unique", "IsUnique", "customer_id"],
    ["c", "few genders", "DistinctCount", "gender <= 2"],
]


def summary(cid):
    return (cid.data_format.format, cid.data_format.header, cid.data_format.item_delimiter, list(cid.field_names),
            [(type(f).__name__, f.is_allowed_to_be_empty, str(f.length), f.rule) for f in cid.field_formats],
            list(cid.check_names), [(type(v).__name__, v.rule) for v in cid.check_map.values()])


def load(rows):
    from cutplace import interface
    cid = interface.Cid()
    cid.read("<native>", [list(r) for r in rows])
    return cid


def native_catalogue():
    from cutplace import errors
    failures = []
    samples = []
    n = 0
    base = summary(load(BASE))
    rewrites = {
        "comment rows": [["", "a comment"]] + BASE[:3] + [[], ["", "", "x"], [" "]] + BASE[3:] + [[]],
        "trailing cells": [r + ["", "ignored", "junk"] if len(r) >= 7 else r + [""] * (7 - len(r)) + ["junk"] for r in BASE],
        "upper case markers and names": [[r[0].upper()] + ([r[1].upper()] if r[0] == "d" else [r[1]]) + r[2:] for r in BASE],
        "blanks around markers": [[" %s " % r[0]] + r[1:] for r in BASE],
        "reordered properties": [BASE[0], BASE[2], BASE[1]] + BASE[3:],
        "data format rows after the first field": [BASE[0]] + BASE[3:4] + BASE[1:3] + BASE[4:],
        "data format row between checks": BASE[:1] + BASE[2:8] + BASE[1:2] + BASE[8:],
        "blank padded cells": [[r[0], " " + r[1] + " "] + r[2:] if r[0] == "f" else r for r in BASE],
        "property name with underscore": [["d", "item_delimiter", ";"] if r[1] == "item delimiter" else r for r in BASE],
        "empty cells between check description and type": [(r[:2] + ["", ""] + r[2:]) if r[0] == "c" else r for r in BASE],
        "empty mark in lower case": [[c if (i != 3 or r[0] != "f") else c.lower() for i, c in enumerate(r)] for r in BASE],
    }
    for name, rows in rewrites.items():
        n += 1
        try:
            got = summary(load(rows))
        except Exception as e:  # noqa
            got = "%s: %s" % (type(e).__name__, e)
        if got != base:
            failures.append(dict(key="cid-rewrite", what="rewrite %r changed the loaded CID: %r instead of %r" % (name, got, base),
                                 args=dict(rewrite=name)))
        elif len(samples) < 2:
            samples.append(dict(query="native/rewrite", rewrite=name))

    def with_row(i, row):
        rows = [list(r) for r in BASE]
        rows[i] = row
        return rows, i

    def insert(i, row):
        rows = [list(r) for r in BASE]
        rows.insert(i, row)
        return rows, i

    defects = {
        "unknown format": with_row(0, ["d", "format", "nonsense"]),
        "first data format row is not format": with_row(0, ["d", "header", "1"]),
        "format twice": insert(1, ["d", "format", "delimited"]),
        "field before format": (BASE[3:4] + BASE[:3] + BASE[4:], 0),
        "unknown row marker": insert(3, ["x", "what"]),
        "empty property name": insert(1, ["d", "", "1"]),
        "unknown property": insert(1, ["d", "colour", "red"]),
        "property of another format": insert(1, ["d", "sheet", "1"]),
        "negative header": with_row(1, ["d", "header", "-1"]),
        "non numeric header": with_row(1, ["d", "header", "x"]),
        "empty field name": with_row(4, ["f", "", "", "", "", "Text", ""]),
        "field name starting with digit": with_row(4, ["f", "1name", "", "", "", "Text", ""]),
        "field name with blank inside": with_row(4, ["f", "sur name", "", "", "", "Text", ""]),
        "field name with non ASCII letter": with_row(4, ["f", "straße", "", "", "", "Text", ""]),
        "field name is keyword": with_row(4, ["f", "class", "", "", "", "Text", ""]),
        "duplicate field name": with_row(4, ["f", "customer_id", "", "", "", "Text", ""]),
        "broken empty mark": with_row(4, ["f", "surname", "", "Y", "", "Text", ""]),
        "unknown field type": with_row(4, ["f", "surname", "", "", "", "NoSuchType", ""]),
        "broken field type": with_row(4, ["f", "surname", "", "", "", "Te xt", ""]),
        "broken length": with_row(4, ["f", "surname", "", "", "1...2...3", "Text", ""]),
        "negative length": with_row(4, ["f", "surname", "", "", "-3...-1", "Text", ""]),
        "lower length above upper": with_row(4, ["f", "surname", "", "", "5...2", "Text", ""]),
        "broken rule": with_row(3, ["f", "customer_id", "", "", "", "Integer", "0...x"]),
        "broken choice rule": with_row(5, ["f", "gender", "", "", "", "Choice", "female,,male"]),
        "example not accepted by its field": with_row(5, ["f", "gender", "other", "", "", "Choice", "female, male"]),
        "example too long": with_row(4, ["f", "surname", "x" * 61, "X", "...60", "Text", ""]),
        "check without description": with_row(7, ["c", "", "IsUnique", "customer_id"]),
        "check with unknown type": with_row(7, ["c", "id must be unique", "NoSuchCheck", "customer_id"]),
        "check naming unknown field": with_row(7, ["c", "id must be unique", "IsUnique", "customer_idx"]),
        "check with empty rule": with_row(7, ["c", "id must be unique", "IsUnique", ""]),
        "duplicate check description": with_row(8, ["c", "id must be unique", "DistinctCount", "gender <= 2"]),
        "distinct count naming unknown field": with_row(8, ["c", "few genders", "DistinctCount", "sex <= 2"]),
        "check before fields": (BASE[:3] + BASE[7:8] + BASE[3:7] + BASE[8:], 3),
        "field type with unterminated quote": with_row(4, ["f", "surname", "", "", "", "Text '", ""]),
        "field type with open bracket": with_row(4, ["f", "surname", "", "", "", "(Text", ""]),
        "unique rule with unterminated quote": with_row(7, ["c", "id must be unique", "IsUnique", "'customer_id"]),
        "unique rule with open bracket": with_row(7, ["c", "id must be unique", "IsUnique", "(customer_id"]),
        "distinct count rule with unterminated quote": with_row(8, ["c", "few genders", "DistinctCount", "gender < '2"]),
        "check with empty rule cell before the rule": with_row(7, ["c", "id must be unique", "IsUnique", "", "customer_id"]),
        "distinct count with empty rule cell before the rule": with_row(8, ["c", "few genders", "DistinctCount", "", "gender <= 2"]),
        "check type in the rule column": with_row(7, ["c", "id must be unique", "", "", "IsUnique"]),
        "attribute name as property": insert(1, ["d", "location", "x"]),
        "attribute name as property 2": insert(1, ["d", "is valid", "1"]),

    }
    for name, (rows, line) in defects.items():
        for shift, pre in (("", []), (" after empty and comment rows", [[], ["", "comment"], []])):
            n += 1
            try:
                load(pre + rows)
                failures.append(dict(key="cid-defect-accepted", what="CID with defect %r%s was accepted" % (name, shift),
                                     args=dict(defect=name)))
            except errors.InterfaceError as e:
                # "a rejection is an interface error whose text names the offending row"
                want = "(R%dC" % (line + len(pre) + 1)
                if want not in str(e):
                    failures.append(dict(key="cid-defect-row", what="defect %r%s: the error text does not name row %d: %s" % (
                        name, shift, line + len(pre) + 1, e), args=dict(defect=name)))
            except Exception as e:  # noqa
                failures.append(dict(key="cid-defect-internal", what="defect %r%s raised %s: %s" % (name, shift, type(e).__name__, e),
                                     args=dict(defect=name)))
    # no field at all / no data format at all
    for name, rows in (("no fields", BASE[:3]), ("nothing", [[], ["", "x"]]), ("fixed without length", [["d", "format", "fixed"], ["f", "x"]]),
                       ("fixed with range length", [["d", "format", "fixed"], ["f", "x", "", "", "2...4"]]),
                       ("fixed with two lengths", [["d", "format", "fixed"], ["f", "x", "", "", "2, 4"]]),
                       ("fixed with length 0", [["d", "format", "fixed"], ["f", "x", "", "", "0"]])):
        n += 1
        try:
            load(rows)
            failures.append(dict(key="cid-defect-accepted", what="CID %r (%s) was accepted" % (rows, name), args=dict(defect=name)))
        except errors.InterfaceError:
            pass
        except Exception as e:  # noqa
            failures.append(dict(key="cid-defect-internal", what="CID %r (%s) raised %s: %s" % (rows, name, type(e).__name__, e),
                                 args=dict(defect=name)))
    # sound CIDs whose property values carry case that matters: accepted, and the examples are judged by them
    sound = [
        [["d", "format", "delimited"], ["d", "Allowed Characters", "\"A\"...\"Z\", 48...57"], ["f", "country_code", "AT", "", "2", "Text", ""]],
        [["d", "format", "delimited"], ["d", "item delimiter", "X"], ["d", "Encoding", "UTF-8"], ["f", "a", "Abc", "", "", "Text", ""]],
        [["d", "format", "delimited"], ["f", "kind", "Big", "", "", "Choice", "Big, small"], ["f", "when", "17.03.2021", "", "", "DateTime", "DD.MM.YYYY"]],
        [["d", "format", "fixed"], ["d", "Line Delimiter", "CRLF"], ["f", "Name", "Ab ", "", "3", "Text", ""], ["c", "Names Differ", "IsUnique", "Name"]],
    ]
    for rows in sound:
        n += 1
        try:
            load(rows)
        except Exception as e:  # noqa
            failures.append(dict(key="cid-sound-rejected", what="sound CID %r was refused: %s: %s" % (rows, type(e).__name__, e), args=dict(rows=rows)))
    for rows, line in (([["d", "format", "delimited"], ["d", "allowed characters", "\"A\"...\"Z\""], ["f", "country_code", "at", "", "2", "Text", ""]], 2),
                       ([["d", "format", "delimited"], ["f", "code", " ab", "", "2", "Text", ""]], 2),
                       ([["d", "format", "delimited"], ["f", "code", "ab ", "", "2", "Text", ""]], 2),
                       ([["d", "format", "delimited"], ["f", "code", " 7", "", "", "Choice", "7,8"]], 2),
                       ([["d", "format", "fixed"], ["f", "code", "ab  ", "", "3", "Text", ""]], 2)):
        n += 1
        try:
            load(rows)
            failures.append(dict(key="cid-defect-accepted", what="CID %r: its example is not accepted by the field it belongs to, yet the CID was accepted" % (rows,),
                                 args=dict(rows=rows)))
        except errors.InterfaceError:
            pass
    # field rows: format x length shape x example x empty mark x type -- only ever accepted or refused with an
    # InterfaceError naming the row; under the fixed format only one exact positive length is admissible
    lengths = ["", "3", "...5", "3...", "2...4", "2, 4", "0", "3...3", " 3 ", "0x3"]
    examples = ["", "x", "abc", "abcdefg", " ", "12"]
    for fmt in ("fixed", "delimited", "ods", "excel"):
        for length in lengths:
            for example in examples:
                for mark in ("", "X"):
                    for type_name, rule in (("Text", ""), ("Integer", ""), ("Choice", "abc, x, 12"), ("", "")):
                        n += 1
                        rows = [["d", "format", fmt], ["f", "x", example, mark, length, type_name, rule]]
                        try:
                            load(rows)
                            accepted = True
                        except errors.InterfaceError as e:
                            accepted = False
                            if "(R2C" not in str(e):
                                failures.append(dict(key="cid-defect-row", what="field row %r under %s: the error text does not "
                                                     "name row 2: %s" % (rows[1], fmt, e), args=dict(rows=rows)))
                        except Exception as e:  # noqa
                            failures.append(dict(key="cid-defect-internal", what="field row %r under %s raised %s: %s" % (
                                rows[1], fmt, type(e).__name__, e), args=dict(rows=rows)))
                            continue
                        exact = length.strip() in ("3", "3...3", "0x3")
                        if fmt == "fixed" and accepted and not exact:
                            failures.append(dict(key="cid-defect-accepted", what="fixed format: field row %r was accepted although its "
                                                 "length is not one exact positive number" % (rows[1],), args=dict(rows=rows)))
                        if accepted is False and example == "" and (fmt != "fixed" or exact) and length != "0":
                            failures.append(dict(key="cid-sound-rejected", what="sound field row %r under %s was refused" % (rows[1], fmt),
                                                 args=dict(rows=rows)))
    # a field or check type is known as soon as its class exists (also when it is defined after a first Cid was made)
    from props.c20 import native_resolution
    res = native_resolution()
    n += res["count"]
    for f in res["failures"]:
        failures.append(dict(key="cid-known-type", what=f["what"], args=f.get("args")))
    return dict(count=n, failures=failures, samples=samples)


def build(tier, seed):
    q = []
    q.append(Query("C09/row-numbering/rows=5", "numbering", make_numbering(5),
                   "Cid.read with recording handlers: 5 rows each symbolically empty / comment / field row / unknown marker "
                   "between a format row and a final field row; recorded row numbers and the row named by the rejection",
                   budget_s=600, expect=("dispatched", "rejected"), functions=FUNCS,
                   stubs=("add_*_row replaced by recorders", "S-FMT")))
    for nrows, mlen in (((1, 2),) if tier == "quick" else ((1, 2), (1, 3), (2, 1))):
        q.append(Query("C09/dispatch/rows=%d/len<=%d" % (nrows, mlen), "dispatch", make_dispatch(nrows, mlen),
                       "Cid.read with recording handlers: %d rows whose marker cell is symbolic (ASCII, len<=%d) or which "
                       "are empty (symbolic flag), followed by a concrete format row and field row" % (nrows, mlen),
                       budget_s=900 if tier == "quick" else 3000, per_path_timeout=60, expect=("dispatched", "rejected"),
                       functions=FUNCS, stubs=("add_*_row replaced by recorders", "S-FMT")))
    ml = 2 if tier == "quick" else 3
    q.append(Query("C09/field-name/len<=%d" % ml, "field-name", make_field_name(ml),
                   "fields.validated_field_name: every text up to %d characters over %r (solver-enumerated: the keyword "
                   "test hashes)" % (ml, "".join(chr(a) for a in NAME_ALPHABET)), budget_s=900 if tier == "quick" else 3000,
                   per_path_timeout=60, expect=("accepted", "refused"), functions=FUNCS, stubs=("S-FMT",)))
    shapes = [(), ("x",), ("c",), ("lo",), ("hi",), ("x", "x"), ("x", "c"), ("c", "hi"), ("lo", "c"), ("lo", "hi")]
    if tier == "quick":
        q.append(Query("C09/field-name/len<=3/small-alphabet", "field-name", make_field_name(3, NAME_ALPHABET_SMALL),
                       "fields.validated_field_name: every text up to 3 characters over %r (keywords with surrounding blanks)"
                       % "".join(chr(a) for a in NAME_ALPHABET_SMALL), budget_s=900, per_path_timeout=60,
                       expect=("accepted", "refused"), functions=FUNCS, stubs=("S-FMT",)))
    for fmt in ("fixed", "delimited", "ods"):
        for kinds in shapes:
            if fmt == "ods" and tier == "quick" and kinds not in (("c",), ("lo", "c")):
                continue
            mk, rp = make_length(fmt, kinds)
            q.append(Query("C09/length/%s/%s" % (fmt, "+".join(kinds) or "none"), "length", mk,
                           "add_field_format_row with a field whose length is a directly constructed range of shape %r, all "
                           "limits symbolic, format %s" % (kinds, fmt), budget_s=300, replay=rp, functions=FUNCS,
                           stubs=("harness field format class whose length is a direct range", "S-FMT")))
    return dict(queries=q, native=native_catalogue, warm=("strip", "lower"),
                assumptions=["length ranges are well-formed and non-overlapping (C01)"],
                outside_claim=["the catalogue of structural defects, meaning-preserving rewrites, check rules and examples "
                               "are text-shaped and tokenizer-bound: exercised natively on a concrete base CID, not decided by "
                               "the solver"],
                exhaustive=False)


def replay_case(case):
    for q in build("thorough", 0)["queries"]:
        if q.qid == case.get("query") and q.replay:
            rep, detail, _ = q.replay(case["args"])
            return rep, detail
    return False, "native cases / harness-native replay: re-run ./check C09"
