"""C10  CID and data problems surface as cutplace errors, never as internal failures.  (DESIGN.md section 6, C10)

Solver part: every field type's validated() with a symbolic cell and the C callees replaced by stubs that produce
EVERY documented outcome (value, special values such as NaN / Infinity, the documented exception) -- the only
exceptions allowed out are FieldValueError; and the exit-code mapping of applications.main for every exception kind.
Enumerated natively (C tokenizer / _decimal / zlib / xlrd; labelled as such): hostile CID cells one at a time over a
valid base CID, hostile data cells through the real callees, truncated and bit-flipped containers."""
import decimal
import itertools

from vlib.engine import Query, assume
from vlib.envstubs import patched, IntStub
from vlib import rowflow as rf
from vlib import fieldfam as ff
from props.c02 import FakeDecimalModule, FakeTimeModule

FUNCS = ("cutplace.fields.AbstractFieldFormat.validated", "cutplace.fields.DecimalFieldFormat.validated_value",
         "cutplace.fields.IntegerFieldFormat.validated_value", "cutplace.fields.DateTimeFieldFormat.validated_value",
         "cutplace.ranges.DecimalRange.validate", "cutplace.applications.main", "cutplace.applications.process",
         "cutplace.interface.Cid.read", "cutplace._tools.tokenize_without_space", "cutplace.rowio.excel_rows",
         "cutplace.rowio.ods_rows", "cutplace.rowio.delimited_rows", "cutplace.rowio.fixed_rows")
SPECIALS = ["NaN", "sNaN", "Infinity", "-Infinity", "-0", "1E+400", "1E-400"]
DECLS = [("Integer", "", "0...99"), ("Integer", "1...3", ""), ("Decimal", "", "0...299.99"), ("Decimal", "", ""),
         ("Decimal", "", "1..."), ("DateTime", "", "DD.MM.YYYY"), ("Text", "...2", ""), ("Choice", "", "ab,c"),
         ("Constant", "", "ab"), ("RegEx", "", "a[bc]*"), ("Pattern", "", "a?")]


def make_field(decl, fmt):
    type_name, length, rule = decl

    def go(cell, outcome, n):
        from cutplace import fields, errors

        assume(len(cell) <= 3)
        if type_name == "RegEx":
            for c in cell:
                assume(ord(c) < 128)
        if type_name == "Pattern":  # fnmatch's (?s:...)\Z is realised: explicit alphabet (solver-enumerated)
            for c in cell:
                o = ord(c)
                assume(o == 97 or o == 65 or o == 98 or o == 46 or o == 10 or o == 32)
        assume(0 <= outcome <= len(SPECIALS) + 1)
        df = ff.data_format(fmt)
        flen = length
        if fmt == "fixed":
            flen = "2" if type_name == "Constant" else "3"
        field = ff.build_field(type_name, True if type_name != "Constant" else False, flen, rule, df)
        trip = [rf.smart_repr()]
        fail = outcome == 0
        if type_name == "Integer":
            trip.append((fields, "int", IntStub(fail=fail, value=n)))
        elif type_name == "Decimal":
            assume(-10 ** 5 < n < 10 ** 5)
            value = decimal.Decimal(n).scaleb(-2) if outcome <= 1 else decimal.Decimal(SPECIALS[outcome - 2])
            trip.append((fields, "decimal", FakeDecimalModule(fail, value)))
        elif type_name == "DateTime":
            trip.append((fields, "time", FakeTimeModule(fail)))
        with patched(*trip):
            try:
                field.validated(cell)
                return True, "accepted"
            except errors.FieldValueError:
                return True, "rejected"
        return False, "?"

    def mk(mode):
        def h(cell: str, outcome: int, n: int):
            return go(cell, outcome, n)

        return h

    def replay(args):
        """the real callees: the cell itself and the special literals"""
        from cutplace import errors
        df = ff.data_format(fmt)
        flen = length
        if fmt == "fixed":
            flen = "2" if type_name == "Constant" else "3"
        field = ff.build_field(type_name, True if type_name != "Constant" else False, flen, rule, df)
        for text in [args["cell"]] + SPECIALS + ["nan", "inf", "-inf", str(args["n"])]:
            try:
                field.validated(text)
            except errors.FieldValueError:
                pass
            except Exception as e:  # noqa
                return True, "%s(length=%r, rule=%r, %s).validated(%r) raised %s: %s" % (
                    type_name, flen, rule, fmt, text, type(e).__name__, e), "field-internal-error"
        return False, "only FieldValueError", "field-internal-error"

    return mk, replay


def make_exit_code():
    KINDS = ("InterfaceError", "DataError", "CheckError", "OSError", "ValueError", "KeyError")

    def go(where, kind):
        import argparse
        from cutplace import applications, errors

        assume(0 <= where <= 1 and 0 <= kind <= 5)
        exc = [errors.InterfaceError("x"), errors.DataError("x"), errors.CheckError("x"), OSError("x"), ValueError("x"),
               KeyError("x")][kind]
        ns = argparse.Namespace(is_create_sql=False, is_gui=False, log_level="critical", plugins_folder=None,
                                validate_until=-1, cid_path="cid.csv", data_paths=["data.csv"])

        def set_cid(self, path):
            if where == 0:
                raise exc
            self.cid = object()
            self.cid_path = path

        class FakeReader:
            def __init__(self, *a, **k):
                self.accepted_rows_count = 0

            def __enter__(self):
                return self

            def __exit__(self, *a):
                return False

            def validate_rows(self):
                raise exc

        with patched(rf.smart_repr(), (argparse.ArgumentParser, "parse_args", lambda self, argv=None: ns),
                     (applications.CutplaceApp, "set_cid_from_path", set_cid), (applications.validio, "Reader", FakeReader),
                     (applications._log, "disabled", True)):
            code = applications.main(["cutplace", "cid.csv", "data.csv"])
        if kind <= 2:
            return code == 1, "cutplace-error"
        if kind == 3:
            return code == 3, "environment"
        return code == 4, "internal"  # only a genuinely unexpected exception type may be answered with 4

    def mk(mode):
        def h(where: int, kind: int):
            return go(where, kind)

        return h

    return mk


# ------------------------------------------------------------------ native enumeration (labelled: not a solver verdict)
HOSTILE = ["", " ", "'", '"', "'a", '"a', "(", ")", "((", "\\", "a\\", "-", "--", "...", "…", ":", ",", ",,", "1", "-1",
           "1.5", "1e5", "0x", "0x1", "1_", "1__2", "07", "0b2", "a", "é", "\x00", "\t", "\n", "NaN", "Infinity", "1...",
           "...1", "5...1", "1...2...3", "x" * 100, "%", "%Q", "DD", "[", "[a", "*", "a|", "(?", "99999999999999999999", "'''",
           "#", "#a", "$", "`", "1 2", "a b", "=", "==", "<", "x <", "x < ", "count", "1;2", "a,b", "a,,b", ",a", "a,", "tab",
           "TAB", "cr,lf", " x", "x ", "None", "True", "-", "- 1", "1-", "1...-", "…5", "1…", "''", '""', "'\\'",
           "0...", "...0", "0", "-0", "1e400", "x.y", ".", "..", "a.b.c", "Text.", ".Text", "1,5", "\r", "x\ry",
           '"\\xZ"', '"\\N{foo}"', '"\\u12"', "'\\x'", '"\\777"', '"\\""', "'\\''", '"\\\\"']


def native_enumeration(tier):
    import io
    import os
    import shutil
    import tempfile
    import zipfile
    from cutplace import interface, errors, validio, rowio
    failures = []
    samples = []
    n = [0]

    def fail(key, what, **args):
        failures.append(dict(key=key, what=what, args=args))

    base = [["d", "format", "delimited"], ["d", "header", "0"],
            ["f", "id", "1", "", "1...5", "Integer", "0...99999"], ["f", "name", "", "X", "...9", "Text", ""],
            ["c", "unique id", "IsUnique", "id"], ["c", "few", "DistinctCount", "name < 9"]]

    def try_cid(rows, what):
        n[0] += 1
        try:
            cid = interface.Cid()
            cid.read("<hostile>", [list(r) for r in rows])
        except errors.InterfaceError:
            pass
        except Exception as e:  # noqa
            fail("cid-internal-error", "%s: Cid.read raised %s: %s" % (what, type(e).__name__, str(e)[:120]), rows=rows)

    # every cell of the base CID, one at a time
    for ri, row in enumerate(base):
        for ci in range(len(row)):
            for h in HOSTILE:
                rows = [list(r) for r in base]
                rows[ri][ci] = h
                try_cid(rows, "base CID with row %d cell %d = %r" % (ri, ci, h))
    # data format rows after field rows (legal), each with hostile values; attribute names as property names
    for prop in ("header", "item delimiter", "quote character", "thousands separator", "allowed characters", "encoding", "location",
                 "is valid", "valid line delimiter texts"):
        for h in HOSTILE[:40] + [";", ".", "1", "2"]:
            try_cid([["d", "format", "delimited"], ["f", "x"], ["d", prop, h], ["f", "y"]], "late data format row %r = %r" % (prop, h))
    from cutplace import data as _data
    for fmt in ("delimited", "fixed", "excel", "ods"):
        for attr in sorted(vars(_data.DataFormat(fmt))):
            for spelled in {attr.lstrip("_"), attr.lstrip("_").replace("_", " "), attr}:
                try_cid([["d", "format", fmt], ["d", spelled, "x"], ["f", "x", "", "", "3" if fmt == "fixed" else ""]],
                        "attribute name %r used as property under %s" % (spelled, fmt))
    # every data format property value, every type's rule / length / example
    props = ["allowed characters", "encoding", "escape character", "header", "item delimiter", "line delimiter",
             "quote character", "quoting", "skip initial space", "decimal separator", "thousands separator", "sheet", "format", ""]
    for fmt in ("delimited", "fixed", "excel", "ods"):
        for prop in props:
            for h in HOSTILE:
                try_cid([["d", "format", fmt], ["d", prop, h], ["f", "x", "", "", "3" if fmt == "fixed" else ""]],
                        "format %s property %r = %r" % (fmt, prop, h))
    for t in ff.TYPES:
        for col in (2, 4, 6):  # example, length, rule
            for h in HOSTILE:
                row = ["f", "x", "", "", "", t, ff.DEFAULT_RULE[t]]
                row[col] = h
                try_cid([["d", "format", "delimited"], row], "%s field with column %d = %r" % (t, col, h))
                if col == 6:
                    try_cid([["d", "format", "fixed"], row[:4] + ["4"] + row[5:]], "fixed %s field with rule %r" % (t, h))
    # two cells at a time: a hostile length together with an example, in both text formats
    for t in ff.TYPES:
        for fmt in ("fixed", "delimited"):
            for example in ("1", "ab", " "):
                for h in HOSTILE:
                    try_cid([["d", "format", fmt], ["f", "x", example, "X" if t != "Constant" else "", h, t, ff.DEFAULT_RULE[t]]],
                            "%s %s field with example %r and length %r" % (fmt, t, example, h))
    for h in HOSTILE:
        try_cid([["d", "format", "delimited"], ["f", "x", "", "", "", "Text" + h, ""]], "field type 'Text' + %r" % h)
        try_cid([["d", "format", "delimited"], ["f", "x", "", "", "", h + "Integer", ""]], "field type %r + 'Integer'" % h)
        for check, col in (("IsUnique", 3), ("DistinctCount", 3), ("IsUnique", 2), ("IsUnique", 1)):
            row = ["c", "desc", check, "x" if check == "IsUnique" else "x < 3"]
            row[col] = h
            try_cid([["d", "format", "delimited"], ["f", "x"], row], "%s check with column %d = %r" % (check, col, h))
    samples.append(dict(query="native/hostile-cid-cells", cases=n[0], pool=len(HOSTILE)))

    # check rules whose evaluation depends on the data: loading, reading and closing raise cutplace errors only
    rules = ["x / (count - 3) < 5", "x < (1 / (count - 1))", "x < [1, 2][count]", "x ** -count < 2", "x < '3'[count]",
             "x % (2 - count) == 0", "x < {0: 1}[count]", "x > 0 and count / (count - 2) > 0", "x >= 0", "x < 3"]
    for rule in rules:
        for nvalues in range(0, 5):
            n[0] += 1
            try:
                cid = interface.Cid()
                cid.read("<hostile>", [["d", "format", "delimited"], ["f", "x"], ["c", "c1", "DistinctCount", rule]])
                datarows = "".join("v%d\n" % i for i in range(nvalues))
                for mode in ("yield", "raise"):
                    list(validio.rows(cid, io.StringIO(datarows), on_error=mode))
                validio.validate(cid, io.StringIO(datarows))
            except errors.CutplaceError:
                pass
            except Exception as e:  # noqa
                fail("check-rule-internal-error", "DistinctCount rule %r with %d distinct values raised %s: %s" % (
                    rule, nvalues, type(e).__name__, e), rule=rule, values=nvalues)
                break
    # data cells through the real callees
    alph = {"Integer": "0123456789+-_ %", "Decimal": "NanIif+-.,eE_01 %", "DateTime": "0123.: %", "Choice": "abc, %", "RegEx": "abc(%",
            "Pattern": "a?*[%", "Text": "a %", "Constant": "ab%"}
    # cells that violate a declared length and carry characters that are special in message formatting
    for t in ff.TYPES:
        for length in ("1...3", "2", "...1"):
            for fmt in ("delimited", "excel"):
                try:
                    rule = ff.DEFAULT_RULE[t]
                    if t == "Constant":
                        rule, length = "ab", "2" if length != "...1" else "1...3"
                    cid = interface.create_cid_from_string("d,format,%s\nf,x,,X,\"%s\",%s,\"%s\"\n" % (fmt, length, t, rule)) \
                        if t != "Constant" else interface.create_cid_from_string("d,format,%s\nf,x,,,\"%s\",%s,\"%s\"\n" % (fmt, length, t, rule))
                except errors.InterfaceError:
                    continue
                for cell in ("100%", "%", "%s", "%d%d", "a%", "%(x)s", "{}", "{0}", "\\", "100% sure", "%%", "%r"):
                    n[0] += 1
                    try:
                        list(validio.rows(cid, [[cell]], on_error="yield")) if False else cid.field_formats[0].validated(cell)
                    except errors.FieldValueError:
                        pass
                    except Exception as e:  # noqa
                        fail("data-internal-error", "%s field (length %s, %s): validated(%r) raised %s: %s" % (
                            t, length, fmt, cell, type(e).__name__, str(e)[:100]), type=t, cell=cell)
                        break
    maxlen = 3 if tier == "quick" else 4
    for fmt in ("delimited", "fixed", "excel"):
        for t in ff.TYPES:
            length = "4" if fmt == "fixed" else ""
            rule = ff.DEFAULT_RULE[t] if not (t == "Constant" and fmt == "fixed") else "abcd"
            try:
                cid = interface.create_cid_from_string("d,format,%s\nf,x,,%s,%s,%s,\"%s\"\n" % (
                    fmt, "" if t == "Constant" else "X", length, t, rule))
            except Exception as e:  # noqa
                fail("data-internal-error", "%s/%s: CID: %s: %s" % (t, fmt, type(e).__name__, e), type=t, fmt=fmt)
                continue
            field = cid.field_formats[0]
            cells = [""] + SPECIALS + ["nan", "inf", "١٢", "1" * 5000]
            for k in range(1, maxlen + 1):
                cells += ["".join(p) for p in itertools.product(alph[t], repeat=k)]
            for cell in cells:
                n[0] += 1
                try:
                    field.validated(cell)
                except errors.FieldValueError:
                    pass
                except Exception as e:  # noqa
                    fail("data-internal-error", "%s field under %s: validated(%r) raised %s: %s" % (
                        t, fmt, cell[:40], type(e).__name__, str(e)[:100]), type=t, fmt=fmt, cell=cell[:40])
                    break
    # containers: truncation and bit flips
    d = tempfile.mkdtemp()
    try:
        from props.c15 import encode_document, write_ods
        import xlsxwriter
        table = [["%d" % i, "name%d" % i] for i in range(40)]
        ods = os.path.join(d, "t.ods")
        write_ods(ods, encode_document([("s", table)]))
        xlsx = os.path.join(d, "t.xlsx")
        wb = xlsxwriter.Workbook(xlsx)
        ws = wb.add_worksheet()
        for y, row in enumerate(table):
            for x, c in enumerate(row):
                ws.write_string(y, x, c)
        wb.close()
        step = 64 if tier == "quick" else 16
        for path, reader, kind in ((ods, rowio.ods_rows, "ods"), (xlsx, rowio.excel_rows, "xlsx")):
            raw = open(path, "rb").read()
            cases = [("truncated at %d" % cut, raw[:cut]) for cut in range(0, len(raw), step)]
            for i in range(0, len(raw), step + 33):
                b = bytearray(raw)
                b[i] ^= 0x40
                cases.append(("bit flipped at %d" % i, bytes(b)))
            for what, blob in cases:
                n[0] += 1
                q = os.path.join(d, "broken." + kind)
                with open(q, "wb") as f:
                    f.write(blob)
                try:
                    list(reader(q, 1))
                except errors.DataFormatError:
                    pass
                except Exception as e:  # noqa
                    fail("container-internal-error", "%s %s: %s: %s" % (kind, what, type(e).__name__, str(e)[:100]), kind=kind, case=what)
                    break
        # a sheet that is not there (just past the end, far past the end, no sheet at all), through the validator
        for kind, fmt, good in (("ods", "ods", ods), ("xlsx", "excel", xlsx)):
            for sheet in (2, 3, 17):
                for mode in ("yield", "raise", "continue"):
                    n[0] += 1
                    scid = interface.create_cid_from_string("d,format,%s\nd,sheet,%d\nf,a\nf,b\n" % (fmt, sheet))
                    try:
                        list(validio.rows(scid, good, on_error=mode))
                        fail("data-internal-error", "%s with one sheet, sheet %d requested, mode %s: no error" % (kind, sheet, mode), kind=kind, sheet=sheet)
                    except errors.DataError:
                        pass
                    except Exception as e:  # noqa
                        fail("container-internal-error", "%s with one sheet, sheet %d requested, mode %s: %s: %s" % (
                            kind, sheet, mode, type(e).__name__, str(e)[:100]), kind=kind, sheet=sheet)
        # delimited: undecodable bytes, unterminated quote; fixed: short record
        cid = interface.create_cid_from_string("d,format,delimited\nd,encoding,ascii\nf,a\nf,b\n")
        for name, blob in (("undecodable byte", b"a,b\n\xff,c\n"), ("unterminated quote", b'a,"b\nc,d\n'), ("nul byte", b"a,\x00\n"),
                           ("lone quote", b'a,b"c\n'), ("empty", b"")):
            p = os.path.join(d, "data.csv")
            open(p, "wb").write(blob)
            for mode in ("yield", "raise", "continue"):
                n[0] += 1
                try:
                    list(validio.rows(cid, p, on_error=mode))
                except errors.DataError:
                    pass
                except Exception as e:  # noqa
                    fail("container-internal-error", "delimited %s (%s): %s: %s" % (name, mode, type(e).__name__, e), case=name)
        fcid = interface.create_cid_from_string("d,format,fixed\nd,encoding,ascii\nf,a,,,3\nf,b,,,2\n")
        for name, blob in (("short record", b"abcde\nab"), ("undecodable byte", b"ab\xffde\n"), ("missing delimiter", b"abcdeabcde")):
            p = os.path.join(d, "data.txt")
            open(p, "wb").write(blob)
            for mode in ("yield", "raise", "continue"):
                n[0] += 1
                try:
                    list(validio.rows(fcid, p, on_error=mode))
                except errors.DataError:
                    pass
                except Exception as e:  # noqa
                    fail("container-internal-error", "fixed %s (%s): %s: %s" % (name, mode, type(e).__name__, e), case=name)
    finally:
        shutil.rmtree(d)
    # de-duplicate failures by (key, exception type): one line each is enough to act on
    seen = set()
    uniq = []
    for f in failures:
        sig = (f["key"], f["what"].split(" raised ")[-1].split(":")[0] if " raised " in f["what"] else f["what"][:60])
        if sig not in seen:
            seen.add(sig)
            uniq.append(f)
    return dict(count=n[0], failures=uniq, samples=samples)


def build(tier, seed):
    q = []
    for decl in DECLS:
        for fmt in (("delimited", "fixed") if tier == "quick" else ("delimited", "fixed", "excel", "ods")):
            if fmt == "fixed" and decl[1]:
                continue
            mk, rp = make_field(decl, fmt)
            q.append(Query("C10/field/%s/%s/len=%r/rule=%r" % (decl[0], fmt, decl[1], decl[2]), "field-errors", mk,
                           "%s field (%s): every cell up to 3 characters; the C callee produces every documented outcome "
                           "(exception, any finite value, %s)" % (decl[0], fmt, ", ".join(SPECIALS)), budget_s=600,
                           per_path_timeout=60, replay=rp, functions=FUNCS, stubs=("S-INT / S-DEC with special values / S-STRP", "S-FMT")))
    from props.c13 import make as make_fixed, DELIMS
    for widths, d, ml in (((1,), "any", 7), ((1, 2), "any", 7), ((2,), "crlf", 6), ((1, 1), "none", 5)):
        mk, rp = make_fixed(list(widths), DELIMS[d], ml)
        q.append(Query("C10/fixed-rows/widths=%s/%s/len<=%d" % ("-".join(map(str, widths)), d, ml), "fixed-errors", mk,
                       "real fixed_rows, widths %r, delimiter %s, every Unicode text up to %d characters: DataFormatError or "
                       "rows, nothing else (same harness as C13)" % (widths, d, ml), budget_s=300, replay=rp, functions=FUNCS,
                       stubs=("S-STREAM", "S-FMT")))
    q.append(Query("C10/exit-code-mapping", "exit-code", make_exit_code(),
                   "applications.main: the CID loader or the reader raises InterfaceError / DataError / CheckError / OSError / "
                   "ValueError / KeyError", budget_s=120, expect=("cutplace-error", "environment", "internal"),
                   functions=FUNCS, stubs=("S-ARGS", "loader / Reader stubs")))
    return dict(queries=q, native=lambda: native_enumeration(tier), warm=("strip", "lower"),
                assumptions=["int() raises only ValueError, Decimal() only InvalidOperation, strptime only ValueError; "
                             "Decimal() may return NaN, sNaN, +-Infinity, -0 and values of any exponent"],
                outside_claim=["hostile CID cells, hostile data cells through the real C callees and corrupted containers "
                               "are ENUMERATED natively over finite pools (tokenizer, _decimal, zlib, xlrd are C): this part "
                               "is exploration, not a solver verdict"],
                exhaustive=False)


def replay_case(case):
    for q in build("thorough", 0)["queries"]:
        if q.qid == case.get("query") and q.replay:
            rep, detail, _ = q.replay(case["args"])
            return rep, detail
    return False, "native cases: re-run ./check C10"
