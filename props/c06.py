"""C06  Error-handling modes agree with each other and account for every row.  (DESIGN.md section 6, C06)

The same symbolic table is read three times (yield / continue / raise) under one CID, the three Readers being
created up front and consumed in turn; the relation between the
three outcomes is the postcondition (no reference reader involved).  Faults: S-ROWS raises DataFormatError after
a symbolic number of rows; and the real fixed_rows on S-STREAM with an arbitrary text (short records etc.)."""
from vlib.engine import Query, assume
from vlib.envstubs import patched
from vlib import rowflow as rf
from props.c13 import Stream

FUNCS = ("cutplace.validio.Reader.rows", "cutplace.validio.BaseValidator.validate_row", "cutplace.validio.BaseValidator.close",
         "cutplace.checks.IsUniqueCheck.check_row", "cutplace.rowio.fixed_rows")
MODES = ("yield", "continue", "raise")


def read_mode(cid, source, mode, reader=None):
    """-> (items, raised, accepted, rejected); items: ('row', row) | ('err', type, line, cell)"""
    from cutplace import validio, errors

    if reader is None:
        reader = validio.Reader(cid, source, on_error=mode)
    items = []
    raised = None
    objs = []
    try:
        for r in reader.rows():
            objs.append(r)
    except errors.DataError as e:
        raised = (type(e).__name__, e.location.line if e.location is not None else None,
                  e.location.cell if (e.location is not None and e.location._has_cell) else None)
    # read the error objects only now: each must still report its own row
    for r in objs:
        if isinstance(r, errors.DataError):
            items.append(("err", type(r).__name__, r.location.line, r.location.cell))
        else:
            items.append(("row", r))
    return items, raised, reader.accepted_rows_count, reader.rejected_rows_count


def rows_equal(a, b):
    if len(a) != len(b):
        return False
    for x, y in zip(a, b):
        if x != y:
            return False
    return True


def relation(results, data_rows_total):
    """results: {mode: (items, raised, acc, rej)} -> (ok, why).  data_rows_total: number of data rows of a complete
    pass, or None if the container is faulty / unknown."""
    yi, yr, yacc, yrej = results["yield"]
    ci, cr, cacc, crej = results["continue"]
    ri, rr, racc, rrej = results["raise"]
    # continue = accepted rows of yield
    yrows = [i for i in yi if i[0] == "row"]
    if len(ci) != len(yrows):
        return False, "continue produced %d rows, yield accepted %d" % (len(ci), len(yrows))
    for a, b in zip(ci, yrows):
        if a[0] != "row" or not rows_equal(a[1], b[1]):
            return False, "continue row differs from yield row"
    # a container fault stops reading in every mode with the same error
    if (yr is None) != (cr is None) or (yr is not None and yr != cr):
        return False, "yield ended with %r, continue with %r" % (yr, cr)
    if yr is not None and yr[0] != "DataFormatError" and yr[0] != "CheckError":
        return False, "yield mode raised %r" % (yr,)
    # raise = rows before the first rejection, then that same error
    first_err = None
    prefix = []
    for it in yi:
        if it[0] == "err":
            first_err = it
            break
        prefix.append(it)
    if len(ri) != len(prefix):
        return False, "raise produced %d rows before stopping, yield %d before its first error" % (len(ri), len(prefix))
    for a, b in zip(ri, prefix):
        if a[0] != "row" or not rows_equal(a[1], b[1]):
            return False, "raise row differs from yield row"
    if first_err is not None:
        if rr is None or rr != (first_err[1], first_err[2], first_err[3]):
            return False, "raise ended with %r, first error of yield is %r" % (rr, first_err)
    else:
        if rr != yr:
            return False, "raise ended with %r, yield with %r" % (rr, yr)
    # counters
    if yacc != len(yrows) or yrej != len(yi) - len(yrows):
        return False, "yield counters %r/%r but %d rows and %d errors were produced" % (yacc, yrej, len(yrows), len(yi) - len(yrows))
    if cacc != yacc or crej != yrej:
        return False, "continue counters %r/%r differ from yield counters %r/%r" % (cacc, crej, yacc, yrej)
    if data_rows_total is not None and yr is None and yacc + yrej != data_rows_total:
        return False, "accepted %d + rejected %d != %d data rows" % (yacc, yrej, data_rows_total)
    return True, ""


def make_srows(keys, nrows, unique, widths=None, with_limit=False):
    n = len(keys)
    widths = widths or [n] * nrows
    names = rf.field_names(keys)
    checks = ("c,uniq,IsUnique,%s" % names[0],) if unique else ()
    text = rf.cid_text(keys, checks=checks)

    def go(header, fault, cells, lim=None):
        rows = []
        k = 0
        for r in range(nrows):
            rows.append([cells[k + j] for j in range(widths[r])])
            k += widths[r]
        results = {}
        with patched(rf.smart_repr(), *rf.srows_patches()):
            # one CID shared by the three modes; the three Readers are created up front and consumed in turn
            from cutplace import validio
            cid = rf.build_cid(text)
            rf.set_header(cid, header)
            readers = dict((m, validio.Reader(cid, rf.CountingRows(rows, fault), on_error=m, validate_until=lim)) for m in MODES)
            for m in MODES:
                results[m] = read_mode(cid, None, m, reader=readers[m])
        total = max(0, nrows - header) if fault < 0 else None
        ok, why = relation(results, total)
        if ok and fault >= 0:
            # the fault propagates in every mode and nothing after it is produced
            for m in MODES:
                items, raised, _, _ = results[m]
                if m != "raise" and (raised is None or raised[0] != "DataFormatError"):
                    ok, why = False, "mode %s swallowed the container fault (%r)" % (m, raised)
                if len(items) > max(0, fault - header):
                    ok, why = False, "mode %s produced %d items although the container failed after %d rows" % (m, len(items), fault)
        yi = results["yield"][0]
        nerr = sum(1 for i in yi if i[0] == "err")
        cls = ("fault" if fault >= 0 else "clean") + "-err%d" % min(nerr, 2)
        return ok, why, cls

    def mk(mode):
        def h(header: int, fault: int, c0: str, c1: str, c2: str, c3: str, c4: str, c5: str, has_limit: bool, limit: int):
            assume(0 <= header <= 2)
            assume(-1 <= fault <= nrows)
            if with_limit:
                assume(0 <= limit <= nrows + 1)
            else:
                assume(not has_limit)
            cells = [c0, c1, c2, c3, c4, c5]
            for i in range(sum(widths)):
                assume(len(cells[i]) <= 2)
            if unique:
                pos = 0
                for r in range(nrows):
                    if widths[r] > 0:
                        k = cells[pos]
                        assume(len(k) == 1 and ord(k) in (97, 98, 99))  # keys a/b valid, c invalid (alphabet bounded)
                    pos += widths[r]
            ok, why, cls = go(header, fault, cells, limit if has_limit else None)
            return ok, cls

        return h

    def replay(args):
        cells = [args["c%d" % i] for i in range(6)]
        ok, why, cls = go(args["header"], args["fault"], cells, args["limit"] if args.get("has_limit") else None)
        rows = []
        k = 0
        for r in range(nrows):
            rows.append([cells[k + j] for j in range(widths[r])])
            k += widths[r]
        return (not ok), "fields %r unique=%s header %d limit %r fault_after %d rows %r: %s" % (
            keys, unique, args["header"], args["limit"] if args.get("has_limit") else None, args["fault"], rows, why), "modes-relation"

    return mk, replay


def make_fixed(widths, delim_name, maxlen):
    """real fixed_rows under the three modes; the text is arbitrary, so short records / wrong delimiters occur"""
    delim = {"any": "any", "lf": "lf", "none": "none"}[delim_name]
    lines = ["d,format,fixed", "d,line delimiter,%s" % delim]
    for i, w in enumerate(widths):
        lines.append("f,f%d,,X,%d,Choice,\"a,b\"" % (i, w) if i == 0 else "f,f%d,,X,%d,Text," % (i, w))
    text = "\n".join(lines) + "\n"

    def go(textdata):
        results = {}
        with patched(rf.smart_repr()):
            for m in MODES:
                cid = rf.build_cid(text)
                results[m] = read_mode(cid, Stream(textdata), m)
        ok, why = relation(results, None)
        yr = results["yield"][1]
        if ok:
            # absolute part: a text outside the record language stops reading with a data-format error (in every
            # mode, by the relation above); a text inside it never does
            from props.c13 import spec_parse, DELIMS
            well_formed = spec_parse(textdata, list(widths), DELIMS[delim_name]) is not None
            if well_formed and yr is not None and yr[0] == "DataFormatError":
                ok, why = False, "well-formed fixed data ended with %r" % (yr,)
            if not well_formed and (yr is None or yr[0] != "DataFormatError"):
                ok, why = False, "malformed fixed data (short record / wrong delimiter) ended with %r instead of a DataFormatError" % (yr,)
        cls = ("fault" if yr is not None else "clean") + "-items%d" % min(len(results["yield"][0]), 2)
        return ok, why, cls

    def mk(mode):
        def h(textdata: str):
            assume(len(textdata) <= maxlen)
            ok, why, cls = go(textdata)
            return ok, cls

        return h

    def replay(args):
        import io
        from cutplace import interface
        results = {}
        for m in MODES:
            cid = interface.create_cid_from_string(text)
            results[m] = read_mode(cid, io.StringIO(args["textdata"], newline=""), m)
        ok, why = relation(results, None)
        if ok:
            from props.c13 import spec_parse, DELIMS
            yr = results["yield"][1]
            well_formed = spec_parse(args["textdata"], list(widths), DELIMS[delim_name]) is not None
            if well_formed and yr is not None and yr[0] == "DataFormatError":
                ok, why = False, "well-formed fixed data ended with %r" % (yr,)
            if not well_formed and (yr is None or yr[0] != "DataFormatError"):
                ok, why = False, "malformed fixed data (short record / wrong delimiter) ended with %r instead of a DataFormatError" % (yr,)
        return (not ok), "fixed widths %r delimiter %s text %r: %s" % (widths, delim_name, args["textdata"], why), \
            "modes-relation-fixed"

    return mk, replay


def make_public(nrows):
    """the public generator API cutplace.rows() (Reader inside a 'with' block, closed on exit) in the three modes with
    an end-of-data check that may fail: the error 'raise' mode ends with is the first rejection of 'yield' mode, never
    an end-of-data CheckError about data that were not processed completely"""
    keys = ("ch", "t01")
    names = rf.field_names(keys)
    text = rf.cid_text(keys, checks=("c,dc,DistinctCount,%s >= 2" % names[0],))

    def run(mode, rows):
        from cutplace import validio, errors
        cid = rf.build_cid(text)
        items = []
        raised = None
        try:
            for r in validio.rows(cid, rows, on_error=mode):
                if isinstance(r, errors.DataError):
                    items.append(("err", type(r).__name__, r.location.line, r.location.cell))
                else:
                    items.append(("row", r))
        except errors.DataError as e:
            raised = (type(e).__name__, e.location.line if e.location is not None else None,
                      e.location.cell if (e.location is not None and e.location._has_cell) else None)
        return items, raised

    def go(cells):
        rows = [[cells[2 * r], cells[2 * r + 1]] for r in range(nrows)]
        for r in range(nrows):
            assume(len(rows[r][0]) == 1 and 97 <= ord(rows[r][0]) <= 99)
            assume(len(rows[r][1]) <= 2)
        with patched(rf.smart_repr(), *rf.srows_patches()):
            y, yr = run("yield", rows)
            c, cr = run("continue", rows)
            r_, rr = run("raise", rows)
        yrows = [i for i in y if i[0] == "row"]
        ok = len(c) == len(yrows) and all(rows_equal(a[1], b[1]) for a, b in zip(c, yrows)) and cr == yr
        why = "" if ok else "continue %r / %r vs yield %r / %r" % (c, cr, y, yr)
        first = None
        prefix = []
        for it in y:
            if it[0] == "err":
                first = it
                break
            prefix.append(it)
        if ok:
            if len(r_) != len(prefix):
                ok, why = False, "raise produced %r, yield prefix %r" % (r_, prefix)
            elif first is not None and rr != (first[1], first[2], first[3]):
                ok, why = False, "raise ended with %r but the first rejection in yield mode is %r" % (rr, first)
            elif first is None and rr != yr:
                ok, why = False, "raise ended with %r, yield with %r" % (rr, yr)
        if ok and yr is not None and yr[0] != "CheckError":
            ok, why = False, "yield mode ended with %r" % (yr,)
        cls = ("rowerr" if first is not None else "clean") + ("-endfail" if yr is not None else "-endok")
        return ok, why, cls, rows

    def mk(mode):
        def h(c0: str, c1: str, c2: str, c3: str, c4: str, c5: str):
            ok, why, cls, _ = go([c0, c1, c2, c3, c4, c5])
            return ok, cls

        return h

    def replay(args):
        ok, why, cls, rows = go([args["c%d" % i] for i in range(6)])
        return (not ok), "cutplace.rows() with DistinctCount >= 2 on %r: %s" % (rows, why), "modes-public-api"

    return mk, replay


def make_archive_faults():
    """a broken archive stops reading with a data-format error in every mode (ODS container, S-ZIP / S-XML faults)"""
    from props.c15 import FakeZipModule, FakeEtModule, ARCHIVE_FAULTS, parse_native, encode_document
    from xml.etree import ElementTree
    xml = encode_document([("s", [["a", "b"], ["c", "d"]])])
    text = "d,format,ods\nf,x\nf,y\n"

    def mk(mode):
        def h(stage: int, kind: int):
            from cutplace import rowio, validio, errors

            assume(0 <= stage <= 2 and 1 <= kind <= len(ARCHIVE_FAULTS) - 1)
            root = parse_native(xml)
            fault = ARCHIVE_FAULTS[kind]
            if stage == 2:
                fault = ElementTree.ParseError("stub") if kind % 2 else ValueError("stub")
            ok = True
            for m in MODES:
                cid = rf.build_cid(text)
                trip = [rf.smart_repr(),
                        (rowio, "zipfile", FakeZipModule(fault if stage == 0 else None, fault if stage == 1 else None)),
                        (rowio, "ElementTree", FakeEtModule(root, fault if stage == 2 else None))]
                with patched(*trip):
                    try:
                        list(validio.rows(cid, "broken.ods", on_error=m))
                        ok = False
                    except errors.DataFormatError:
                        pass
            return ok, ("stage0", "stage1", "stage2")[stage]

        return h

    return mk


# ------------------------------------------------------------------ native part: real containers (C level parsers)
def native_containers():
    """real files through csv / codecs / zipfile / xlrd in the three modes: healthy, with rejected rows, and broken at
    line 1, 2, 3 (unterminated quote, undecodable byte, short fixed record, truncated archive).  Exploration of
    concrete cases (labelled native in the evidence), not a solver query: the parsers are C code."""
    import os
    import shutil
    import tempfile
    from cutplace import interface, errors

    failures = []
    samples = []
    n = 0
    tmp = tempfile.mkdtemp(prefix="c06native")

    def fail(key, what, **args):
        failures.append(dict(key=key, what=what, args=args))

    def cid_of(text):
        return interface.create_cid_from_string(text)

    keys = ("ch", "t01")
    delim = rf.cid_text(keys, "delimited", extra=("d,encoding,utf-8", "d,header,0"))
    delim_h1 = rf.cid_text(keys, "delimited", extra=("d,encoding,utf-8", "d,header,1"))
    fixed = "d,format,fixed\nd,encoding,utf-8\nd,line delimiter,lf\nf,k,,,1,Choice,\"a,b\"\nf,v,,X,2\n"
    ods = rf.cid_text(keys, "ods")
    xls = rf.cid_text(keys, "excel")
    good = [b"a,x", b"c,x", b"b,", b"a,xx", b"b,y"]  # rows 2 and 4 rejected
    cases = []  # (name, cid text, bytes, suffix, broken?, data rows or None)
    cases.append(("delimited healthy", delim, b"\n".join(good) + b"\n", ".csv", False, 5))
    cases.append(("delimited healthy header 1", delim_h1, b"\n".join(good) + b"\n", ".csv", False, 4))
    cases.append(("delimited empty", delim, b"", ".csv", False, 0))
    for at in range(0, 4):
        lines = list(good[:at]) + [b'a,"x'] + list(good[at:at + 1])
        cases.append(("delimited unterminated quote in line %d" % (at + 1), delim, b"\n".join(lines) + b"\n", ".csv", True, None))
        cases.append(("delimited unterminated quote in line %d (header 1)" % (at + 1), delim_h1, b"\n".join(lines) + b"\n", ".csv", True, None))
        lines = list(good[:at]) + [b"a,\xff"] + list(good[at:at + 1])
        cases.append(("delimited undecodable byte in line %d" % (at + 1), delim, b"\n".join(lines) + b"\n", ".csv", True, None))
    cases.append(("delimited unterminated quote, single line without newline", delim, b'a,"x', ".csv", True, None))
    # the same malformations under every delimited dialect setting (the parser stays strict whatever the dialect)
    dialects = [("skip initial space", ("d,skip initial space,true",), b",", b'"'), ("quote character '", ("d,quote character,\"'\"",), b",", b"'"),
                ("item delimiter ;", ("d,item delimiter,;",), b";", b'"'), ("line delimiter lf", ("d,line delimiter,lf",), b",", b'"'),
                ("escape character", ("d,escape character,\\",), b",", b'"'), ("encoding ascii", ("d,encoding,ascii",), b",", b'"')]
    for dname, extra, sep, quote in dialects:
        text_d = rf.cid_text(keys, "delimited", extra=("d,header,0",) + extra)
        ok_lines = [b"a" + sep + b"x", b"b" + sep + quote + b"y" + quote]
        cases.append(("delimited healthy (%s)" % dname, text_d, b"\n".join(ok_lines) + b"\n", ".csv", False, 2))
        cases.append(("delimited unterminated quote at the end (%s)" % dname, text_d,
                      b"\n".join(ok_lines + [b"a" + sep + quote + b"x"]) + b"\n", ".csv", True, None))
        if dname.startswith(("quote character", "escape character")):
            continue  # without quote doubling the csv module takes text after a closing quote as more of the item
        cases.append(("delimited text after a closing quote (%s)" % dname, text_d,
                      b"\n".join(ok_lines + [b"a" + sep + quote + b"x" + quote + b"y"]) + b"\n", ".csv", True, None))
    cases.append(("delimited undecodable byte far into the data", delim, b"a,x\n" * 5000 + b"a,\xff\n", ".csv", True, None))
    cases.append(("fixed healthy", fixed, b"ax \ncx \nb  \n", ".txt", False, 3))
    for at in range(0, 3):
        recs = [b"ax ", b"cx ", b"b  "][:at] + [b"a"]
        cases.append(("fixed short record %d" % (at + 1), fixed, b"\n".join(recs), ".txt", True, None))
        recs = [b"ax ", b"cx ", b"b  "][:at] + [b"a\xffx"]
        cases.append(("fixed undecodable byte in record %d" % (at + 1), fixed, b"\n".join(recs) + b"\n", ".txt", True, None))
    cases.append(("ods that is plain text", ods, b"a,x\n", ".ods", True, None))
    cases.append(("ods that is a truncated archive", ods, b"PK\x03\x04" + b"\x00" * 40, ".ods", True, None))
    cases.append(("excel that is plain text", xls, b"a,x\n", ".xls", True, None))
    cases.append(("xlsx that is a truncated archive", xls, b"PK\x03\x04" + b"\x00" * 40, ".xlsx", True, None))
    try:
        for idx, (name, text, payload, suffix, broken, total) in enumerate(cases):
            n += 1
            path = os.path.join(tmp, "case%d%s" % (idx, suffix))
            with open(path, "wb") as f:
                f.write(payload)
            results = {}
            internal = None
            for mode in MODES:
                try:
                    results[mode] = read_mode(cid_of(text), path, mode)
                except Exception as e:  # noqa
                    internal = "%s mode raised %s: %s" % (mode, type(e).__name__, e)
                    break
            if internal is not None:
                fail("modes-real-container", "%s: %s" % (name, internal), case=name)
                continue
            ok, why = relation(results, total)
            if not ok:
                fail("modes-real-container", "%s: %s" % (name, why), case=name)
                continue
            yr = results["yield"][1]
            if broken and (yr is None or yr[0] != "DataFormatError"):
                fail("modes-real-container", "%s: reading ended with %r instead of a DataFormatError" % (name, yr), case=name)
            elif not broken and yr is not None:
                fail("modes-real-container", "%s: reading ended with %r" % (name, yr), case=name)
            elif len(samples) < 3:
                samples.append("%s: yield %r" % (name, results["yield"][1:]))
    finally:
        shutil.rmtree(tmp, ignore_errors=True)
    return dict(count=n, failures=failures, samples=samples)


def build(tier, seed):
    queries = []
    shapes = [(("ch", "t01"), 2, True), (("t12",), 3, False), (("ch", "t01"), 1, True), (("t12", "t01"), 2, False)]
    if tier == "thorough":
        shapes += [(("ch", "t01"), 3, True), (("t12",), 5, False), (("t12", "ch", "t1"), 2, False)]
    shapes = [s + (None,) for s in shapes] + [(("ch", "t01"), 2, True, [1, 2]), (("t12", "t01"), 2, False, [3, 2]),
                                              (("ch", "t01"), 3, True, [2, 3, 1])]
    shapes = [s + (False,) for s in shapes] + [(("t12",), 3, False, None, True), (("ch", "t01"), 2, True, None, True)]
    for keys, nrows, unique, widths, with_limit in shapes:
        mk, rp = make_srows(keys, nrows, unique, widths, with_limit)
        queries.append(Query("C06/srows/%s/rows=%d%s%s%s" % ("+".join(keys), nrows, "/unique" if unique else "",
                                                            "/widths=%s" % ",".join(map(str, widths)) if widths else "",
                                                            "/limit" if with_limit else ""),
                             "modes", mk,
                             "fields %r, %d rows, all cells symbolic (len<=2; unique keys from {a,b,c}), header 0..2, "
                             "container fault after -1..%d rows, all three modes per path" % (keys, nrows, nrows),
                             budget_s=600 if tier == "quick" else 2400, per_path_timeout=90, replay=rp, functions=FUNCS,
                             expect=("clean-err0", "fault-err0") if not widths else (),
                             stubs=("S-ROWS with fault injection", "S-FMT")))
    fixed = [((1, 1), "any", 6), ((2,), "lf", 6), ((1,), "none", 4)]
    if tier == "thorough":
        fixed = [((1, 1), "any", 8), ((2,), "lf", 8), ((1,), "none", 5), ((2, 1), "any", 8)]
    for widths, d, ml in fixed:
        mk, rp = make_fixed(widths, d, ml)
        queries.append(Query("C06/fixed/w=%s/%s/len<=%d" % ("-".join(map(str, widths)), d, ml), "modes-fixed", mk,
                             "real fixed_rows, widths %r, delimiter %s, every text of length <= %d, all three modes per "
                             "path" % (widths, d, ml), budget_s=600 if tier == "quick" else 2400, per_path_timeout=90,
                             replay=rp, functions=FUNCS, stubs=("S-STREAM", "S-FMT")))
    for nrows in ((2,) if tier == "quick" else (2, 3)):
        mk, rp = make_public(nrows)
        queries.append(Query("C06/public-rows-api/rows=%d" % nrows, "modes-public", mk,
                             "cutplace.rows() in three modes, %d rows (key a/b/c, value len<=2), DistinctCount >= 2 at the "
                             "end" % nrows, budget_s=600 if tier == "quick" else 2400, per_path_timeout=90, replay=rp,
                             functions=FUNCS + ("cutplace.validio.rows", "cutplace.validio.BaseValidator.__exit__"),
                             expect=("clean-endok", "clean-endfail", "rowerr-endfail"), stubs=("S-ROWS", "S-FMT")))
    queries.append(Query("C06/archive-faults/ods", "modes-archive", make_archive_faults(),
                         "ODS container: opening the archive / reading content.xml / parsing fails with any documented "
                         "exception type, in each of the three modes", budget_s=300, expect=("stage0", "stage1", "stage2"),
                         functions=FUNCS, stubs=("S-ZIP with faults", "S-XML with faults", "S-FMT")))
    return dict(queries=queries, warm=("strip",), native=native_containers,
                assumptions=["container faults are modelled as a DataFormatError raised by the row source after k rows"],
                outside_claim=["undecodable bytes, unterminated csv quotes, broken archives (C codecs, _csv, zlib) beyond the "
                               "concrete native cases",
                               "tables above the bounds"],
                exhaustive=False)


def replay_case(case):
    for tier in ("quick", "thorough"):
        for q in build(tier, 0)["queries"]:
            if q.qid == case.get("query"):
                rep, detail, _ = q.replay(case["args"])
                return rep, detail
    return False, "no such query"
