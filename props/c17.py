"""C17  The storage format of CID and data does not change the verdict.  (DESIGN.md section 6, C17)

Relational FIELD query: the same field declaration under CIDs that differ only in their Format property (delimited,
ods, excel) must give the same verdict and the same value for every cell.  The containers themselves (zip, XML,
xlrd) are outside the solver's reach; the native part stores one table / one CID in all three formats for real."""
import decimal

from vlib.engine import Query, assume
from vlib.envstubs import patched, IntStub
from vlib import rowflow as rf
from vlib import fieldfam as ff
from props.c02 import FakeDecimalModule, FakeTimeModule

FUNCS = ("cutplace.fields.AbstractFieldFormat.validated", "cutplace.fields.IntegerFieldFormat.validated_value",
         "cutplace.fields.DecimalFieldFormat.__init__", "cutplace.fields.DecimalFieldFormat.validated_value",
         "cutplace.fields.DateTimeFieldFormat.validated_value", "cutplace.fields.ChoiceFieldFormat.validated_value",
         "cutplace.fields.RegExFieldFormat.validated_value", "cutplace.interface.Cid.add_field_format_row")
FORMATS = ("delimited", "ods", "excel")
DECLS = [  # type, empty, length, rule, maxlen (None = unbounded), stub
    ("Text", True, "...3", "", None, None),
    ("Choice", False, "", "ab,cd,e", None, None),
    ("Integer", False, "", "-5...12, 100...", None, "int"),
    ("Integer", True, "1...3", "", 4, "int"),
    ("Decimal", False, "", "0...299.99", 4, "dec"),
    ("Decimal", True, "", "", 3, "dec"),
    ("DateTime", False, "", "DD.MM.YYYY hh:mm", 12, "time"),
    ("DateTime", False, "", "YYYY-MM-DD hh:mm:ss", 12, "time"),
    ("DateTime", False, "", "YYYY-MM-DD", 12, "time"),
    ("RegEx", False, "", "a[bc]*d?", 3, None),
    ("Constant", False, "", "abc", None, None),
]


class EchoTimeModule:
    """S-STRP for the relational query: the 'parsed value' is the text and layout it was given, so that two formats
    agree on the value only if they hand the same text to strptime"""

    def __init__(self, fail):
        self.fail = fail

    def strptime(self, text, fmt):
        if self.fail:
            raise ValueError("stub: does not match")
        return ("parsed", text, fmt)


def make(decl):
    type_name, empty, length, rule, maxlen, stub = decl

    def go(cell, fail, n):
        from cutplace import fields, errors, interface

        if maxlen is not None:
            assume(len(cell) <= maxlen)
        if type_name == "RegEx":
            for c in cell:
                assume(ord(c) < 128)
        if type_name == "DateTime" and "hh" not in rule:
            # the documented exception: Excel renders date-only cells with a ' 00:00:00' suffix, which is dropped
            assume(not (len(cell) >= 9 and cell[len(cell) - 9:] == " 00:00:00"))
        outcomes = []
        for fmt in FORMATS:
            # through the real CID loader: CIDs that differ only in the Format row
            text = "d,format,%s\nf,x,,%s,\"%s\",%s,\"%s\"\n" % (fmt, "X" if empty else "", length, type_name, rule)
            try:
                with rf.untraced():
                    cid = interface.create_cid_from_string(text)
                    field = cid.field_formats[0]
            except Exception as e:  # noqa
                return False, "construction", "under format %s the declaration fails: %s: %s" % (fmt, type(e).__name__, e)
            trip = [rf.smart_repr()]
            if stub == "int":
                trip.append((fields, "int", IntStub(fail=fail, value=n)))
            elif stub == "dec":
                assume(-10 ** 6 < n < 10 ** 6)
                trip.append((fields, "decimal", FakeDecimalModule(fail, decimal.Decimal(n).scaleb(-2))))
            elif stub == "time":
                trip.append((fields, "time", EchoTimeModule(fail)))
            with patched(*trip):
                try:
                    outcomes.append(("acc", field.validated(cell)))
                except errors.FieldValueError:
                    outcomes.append(("rej", None))
        first = outcomes[0]
        for o in outcomes[1:]:
            if o[0] != first[0]:
                return False, "verdict", "verdicts per format %r: %r" % (FORMATS, [x[0] for x in outcomes])
            if o[0] == "acc" and not (o[1] == first[1] or (o[1] is None and first[1] is None)):
                return False, "value", "values per format %r differ" % (FORMATS,)
        return True, first[0], ""

    def mk(mode):
        def h(cell: str, fail: bool, n: int):
            ok, cls, _ = go(cell, fail, n)
            return ok, cls

        return h

    def replay(args):
        """no stubs: the cell (and, for stubbed parsers, the canonical / digitised texts) under the three real CIDs"""
        from cutplace import interface, errors
        cell = args["cell"]
        candidates = [cell, str(args["n"]), "%.2f" % (args["n"] / 100.0), "".join(c if c in ".,-" else "5" for c in cell),
                      "".join(c if c in ".,-" else "5" for c in cell) + ",", "1,5", "1,234.50"]
        if type_name == "DateTime":
            import time
            from props.c02 import strptime_format_oracle
            fmt_ = strptime_format_oracle(rule)
            for st in (time.struct_time((2003, 2, 1, 0, 0, 0, 5, 32, -1)), time.struct_time((1999, 12, 31, 23, 59, 58, 4, 365, -1))):
                candidates.append(time.strftime(fmt_, st))
        for text in candidates:
            outs = []
            for fmt in FORMATS:
                cidtext = "d,format,%s\nf,x,,%s,\"%s\",%s,\"%s\"\n" % (fmt, "X" if empty else "", length, type_name, rule)
                try:
                    field = interface.create_cid_from_string(cidtext).field_formats[0]
                except Exception as e:  # noqa
                    return True, "%s field (rule %r) cannot be declared under format %s: %s: %s" % (
                        type_name, rule, fmt, type(e).__name__, e), "cross-format-construction"
                try:
                    outs.append(("acc", field.validated(text)))
                except errors.FieldValueError:
                    outs.append(("rej", None))
            if type_name == "DateTime" and "hh" not in rule and text.endswith(" 00:00:00"):
                continue
            if any(o != outs[0] for o in outs[1:]):
                return True, "%s field (rule %r), cell %r: outcomes per format %r = %r" % (type_name, rule, text, FORMATS, outs), \
                    "cross-format-verdict"
        return False, "all formats agree on %r" % (candidates,), "cross-format-verdict"

    return mk, replay


def native_storage():
    """the same CID and the same table stored as csv, ods (independent encoder) and xlsx (xlsxwriter)"""
    import os
    import shutil
    import tempfile
    import xlsxwriter
    from cutplace import interface, validio, errors
    from props.c15 import encode_document, write_ods
    failures = []
    samples = []
    n = 0
    d = tempfile.mkdtemp()
    try:
        def store(rows, stem, ods_opts=None):
            paths = {}
            p = os.path.join(d, stem + ".csv")
            import csv
            with open(p, "w", newline="", encoding="utf-8") as f:
                csv.writer(f).writerows(rows)
            paths["csv"] = p
            p = os.path.join(d, stem + ".ods")
            write_ods(p, encode_document([("s", rows)], **(ods_opts or dict(column_runs=True))))
            paths["ods"] = p
            p = os.path.join(d, stem + ".xlsx")
            wb = xlsxwriter.Workbook(p)
            ws = wb.add_worksheet()
            for y, row in enumerate(rows):
                for x, c in enumerate(row):
                    if c != "":
                        ws.write_string(y, x, c)  # (a spreadsheet does not store empty cells)
            wb.close()
            paths["xlsx"] = p
            return paths

        def summary(cid):
            return (cid.data_format.format, cid.data_format.header, cid.field_names,
                    [(type(f).__name__, f.is_allowed_to_be_empty, str(f.length), f.rule) for f in cid.field_formats],
                    [(k, type(v).__name__, v.rule) for k, v in cid.check_map.items()])

        cid_rows = [["d", "format", "delimited", "", "", "", ""], ["d", "header", "1", "", "", "", ""],
                    ["", "a comment row", "", "", "", "", ""],
                    ["f", "customer_id", "12", "", "1...5", "Integer", "0...99999"],
                    ["f", "surname", "Miller", "X", "...60", "Text", ""],
                    ["f", "gender", "male", "", "", "Choice", "female, male"],
                    ["f", "amount", "", "X", "", "Decimal", "0...1000"],
                    ["f", "born", "", "X", "", "DateTime", "DD.MM.YYYY"],
                    ["c", "id must be unique", "IsUnique", "customer_id", "", "", ""],
                    ["c", "few genders", "DistinctCount", "gender <= 2", "", "", ""]]
        paths = store(cid_rows, "cid")
        sums = {}
        for kind, p in paths.items():
            n += 1
            try:
                sums[kind] = summary(interface.Cid(p))
            except Exception as e:  # noqa
                sums[kind] = "%s: %s" % (type(e).__name__, e)
        if not (sums["csv"] == sums["ods"] == sums["xlsx"]):
            failures.append(dict(key="cid-storage", what="the same CID stored as csv/ods/xlsx loads as %r" % (sums,), args={}))
        else:
            samples.append(dict(query="native/cid-storage", summary=str(sums["csv"])[:300]))
        # the container is recognised by the file suffix whatever its case
        for kind, p in sorted(paths.items()):
            stem, suffix = os.path.splitext(p)
            for variant in (suffix.upper(), suffix.capitalize()):
                n += 1
                q = os.path.join(d, "Renamed_" + kind + variant)
                shutil.copyfile(p, q)
                try:
                    got = summary(interface.Cid(q))
                except Exception as e:  # noqa
                    got = "%s: %s" % (type(e).__name__, e)
                if got != sums["csv"]:
                    failures.append(dict(key="cid-storage", what="the CID stored as %s loads as %r, stored as csv as %r" % (
                        os.path.basename(q), got, sums["csv"]), args=dict(name=os.path.basename(q))))
        # a commented cell (office:annotation holds paragraphs of its own) has the value of its own paragraphs only
        n += 1
        people = [["id", "name"], ["1", "Miller"], ["2", "Webster"]]
        ppaths = store(people, "people", dict())
        doc = encode_document([("s", people)])
        annotated = doc.replace("<text:p>Miller</text:p>", '<office:annotation><text:p>double check</text:p><text:p>the spelling</text:p>'
                                '</office:annotation><text:p>Miller</text:p>')
        if annotated == doc:
            failures.append(dict(key="harness", what="could not place the annotation", args={}))
        write_ods(ppaths["ods"], annotated)
        pv = {}
        for kind, fmt in (("csv", "delimited"), ("ods", "ods"), ("xlsx", "excel")):
            cid = interface.create_cid_from_string("d,format,%s\nd,header,1\nf,id,,,,Integer\nf,name,,,...7,Choice,\"Miller,Webster\"\n" % fmt)
            try:
                pv[kind] = ["error" if isinstance(r, errors.DataError) else r for r in validio.rows(cid, ppaths[kind], on_error="yield")]
            except Exception as e:  # noqa
                pv[kind] = "%s: %s" % (type(e).__name__, e)
        if not (pv["csv"] == pv["ods"] == pv["xlsx"] == people[1:]):
            failures.append(dict(key="data-storage-annotation", what="a table with a commented ODS cell is read as %r" % (pv,), args={}))
        # rows that end in empty cells (a spreadsheet does not store them), the first row included
        n += 1
        sparse = [["1", "a", ""], ["2", "b", "x"], ["3", "", ""], ["", "", ""], ["5", "e", "y"], ["6", "toolong", ""]]
        spp = store(sparse, "sparse", dict(column_runs=True))
        sv = {}
        for kind, fmt in (("csv", "delimited"), ("ods", "ods"), ("xlsx", "excel")):
            cid = interface.create_cid_from_string("d,format,%s\nf,id,,,,Integer\nf,name,,X,...3\nf,mark,,X,,Choice,\"x,y\"\n" % fmt)
            try:
                sv[kind] = ["error" if isinstance(r, errors.DataError) else r for r in validio.rows(cid, spp[kind], on_error="yield")]
            except Exception as e:  # noqa
                sv[kind] = "%s: %s" % (type(e).__name__, e)
        if not (sv["csv"] == sv["ods"] == sv["xlsx"]) or sv["csv"][:3] != sparse[:3]:
            failures.append(dict(key="data-storage-trailing-empty-cells", what="a table whose rows end in empty cells is read as %r" % (sv,), args={}))
        # the table on the SECOND sheet of a workbook / document (first sheet holds something else), CIDs with Sheet 2;
        # text cells that look like numbers ("12.0", "release 2.0") are text in every container
        n += 1
        tbl = [["1", "12.0"], ["x", "release 2.0"], ["3", "3.0"], ["4", "toolong.0"]]
        other = [["other", "sheet"], ["9", "9"]]
        p2 = {}
        p2["ods"] = os.path.join(d, "second.ods")
        write_ods(p2["ods"], encode_document([("first", other), ("second", tbl)]))
        p2["xlsx"] = os.path.join(d, "second.xlsx")
        wb = xlsxwriter.Workbook(p2["xlsx"])
        for rows_ in (other, tbl):
            ws = wb.add_worksheet()
            for y, row in enumerate(rows_):
                for x, c in enumerate(row):
                    ws.write_string(y, x, c)
        wb.close()
        p2["csv"] = os.path.join(d, "second.csv")
        import csv as _csv
        with open(p2["csv"], "w", newline="", encoding="utf-8") as f:
            _csv.writer(f).writerows(tbl)
        s2 = {}
        for kind, fmt in (("csv", "delimited"), ("ods", "ods"), ("xlsx", "excel")):
            cid = interface.create_cid_from_string("d,format,%s\n%sf,id,,,,Integer\nf,text,,,...8\n" % (fmt, "" if fmt == "delimited" else "d,sheet,2\n"))
            try:
                s2[kind] = ["error" if isinstance(r, errors.DataError) else r for r in validio.rows(cid, p2[kind], on_error="yield")]
            except Exception as e:  # noqa
                s2[kind] = "%s: %s" % (type(e).__name__, e)
        if not (s2["csv"] == s2["ods"] == s2["xlsx"] == [tbl[0], "error", tbl[2], "error"]):
            failures.append(dict(key="data-storage-second-sheet", what="the table on sheet 2 (text cells ending in '.0') is read as %r" % (s2,), args={}))
        # the same paths rewritten with another table and validated again in the same process
        n += 1
        second = [["7", "g", "x"], ["x", "h", ""], ["9", "", "q"], ["10", "j", "y"]]
        spp2 = store(second, "sparse", dict(column_runs=True))
        sv2 = {}
        for kind, fmt in (("csv", "delimited"), ("ods", "ods"), ("xlsx", "excel")):
            cid = interface.create_cid_from_string("d,format,%s\nf,id,,,,Integer\nf,name,,X,...3\nf,mark,,X,,Choice,\"x,y\"\n" % fmt)
            try:
                sv2[kind] = ["error" if isinstance(r, errors.DataError) else r for r in validio.rows(cid, spp2[kind], on_error="yield")]
            except Exception as e:  # noqa
                sv2[kind] = "%s: %s" % (type(e).__name__, e)
        if not (sv2["csv"] == sv2["ods"] == sv2["xlsx"] == [second[0], "error", "error", second[3]]):
            failures.append(dict(key="data-storage-rewritten-file", what="files rewritten with a second table are read as %r" % (sv2,), args={}))
        # cells with carriage returns, consecutive blanks and tabs: the same values whatever the container
        special = [["k", "text"], ["1", "a\r\nb"], ["2", "Dr.   Who"], ["3", "tab\there"], ["4", "x\ry"]]
        spaths = store(special, "special", dict(ws_elements=True, span_at=2))
        values = {}
        for kind, fmt in (("csv", "delimited"), ("ods", "ods"), ("xlsx", "excel")):
            n += 1
            cid = interface.create_cid_from_string("d,format,%s\nd,header,1\nf,k\nf,text,,,...12\n" % fmt)
            try:
                values[kind] = ["error" if isinstance(r, errors.DataError) else r for r in validio.rows(cid, spaths[kind], on_error="yield")]
            except Exception as e:  # noqa
                values[kind] = "%s: %s" % (type(e).__name__, e)
        # (an ODS paragraph cannot hold a bare line break: '\r\n' and '\r' are compared between csv and xlsx only)
        if not (values["csv"] == values["xlsx"] and isinstance(values["ods"], list) and values["ods"][1:3] == values["csv"][1:3]):
            failures.append(dict(key="data-storage-special-characters", what="cells with CR / blanks / tabs stored as csv/ods/xlsx are read as %r" % (values,), args={}))
        # a CID whose number-looking cells are stored as real number cells in the workbook (what a spreadsheet does)
        num_rows = [["d", "format", "delimited"], ["d", "header", 0], ["f", "zero", 0, "", 1, "Integer", 0],
                    ["f", "code", 7, "X", "", "Integer", "0...99"], ["f", "none", "", "X", 0, "Text", ""]]
        as_text = [[("%d" % c if isinstance(c, int) else c) for c in r] for r in num_rows]
        n += 1
        p = os.path.join(d, "numeric_cid.xlsx")
        wb = xlsxwriter.Workbook(p)
        ws = wb.add_worksheet()
        for y, row in enumerate(num_rows):
            for x, c in enumerate(row):
                if isinstance(c, int):
                    ws.write_number(y, x, c)
                else:
                    ws.write_string(y, x, c)
        wb.close()
        try:
            a = summary(interface.Cid(p))
        except Exception as e:  # noqa
            a = "%s: %s" % (type(e).__name__, e)
        c = interface.Cid()
        c.read("<text>", as_text)
        b = summary(c)
        if a != b:
            failures.append(dict(key="cid-storage-number-cells", what="CID with number cells in xlsx loads as %r, as text %r" % (a, b), args={}))
        # data: same table, CIDs differing only in Format
        table = [["id", "name", "name2", "flag"], ["1", "Anna", "Anna", "Y"], ["x", "Bob", "Bob", "Y"], ["3", "", "", "N"],
                 ["4", "Dora", "Dora", "Q"], ["5", "Eve", "Eve"]]
        dpaths = store(table, "data")
        verdicts = {}
        for kind, fmt in (("csv", "delimited"), ("ods", "ods"), ("xlsx", "excel")):
            n += 1
            cid = interface.create_cid_from_string(
                "d,format,%s\nd,header,1\nf,id,,,,Integer\nf,name,,X,...10\nf,name2,,X,...10\nf,flag,,,,Choice,\"Y,N\"\n" % fmt)
            try:
                out = []
                for r in validio.rows(cid, dpaths[kind], on_error="yield"):
                    out.append("error" if isinstance(r, errors.DataError) else r)
                verdicts[kind] = out
            except Exception as e:  # noqa
                verdicts[kind] = "%s: %s" % (type(e).__name__, e)
        # the xlsx reader pads the short last row to the sheet width; csv and ods keep it short: its verdict may differ
        # only in that the padded row is judged by its (empty) cells -- compare the rows all three see alike
        core = {k: v[:4] if isinstance(v, list) else v for k, v in verdicts.items()}
        if not (core["csv"] == core["ods"] == core["xlsx"]):
            failures.append(dict(key="data-storage", what="the same table stored as csv/ods/xlsx is judged %r" % (verdicts,), args={}))
    finally:
        shutil.rmtree(d)
    return dict(count=n, failures=failures, samples=samples)


def build(tier, seed):
    q = []
    for decl in DECLS:
        mk, rp = make(decl)
        q.append(Query("C17/%s/len=%r/rule=%r" % (decl[0], decl[2], decl[3]), "cross-format", mk,
                       "%s field (empty %s, length %r, rule %r) under delimited / ods / excel CIDs: cell %s, parser "
                       "outcome symbolic" % (decl[0], decl[1], decl[2], decl[3],
                                             "unbounded" if decl[4] is None else "len<=%d" % decl[4]),
                       budget_s=600, per_path_timeout=60, replay=rp, functions=FUNCS,
                       stubs=("S-INT / S-DEC / S-STRP as in C02", "S-FMT")))
    return dict(queries=q, native=native_storage, warm=("strip", "lower"),
                assumptions=["the documented exception is honoured: for date-only DateTime fields Excel cells ending in "
                             "' 00:00:00' are outside the comparison"],
                outside_claim=["CID and data stored as csv / ods / xlsx files: zip, XML, xlrd are outside the solver's "
                               "reach; one CID and one table are stored in all three formats natively"],
                exhaustive=False)


def replay_case(case):
    for q in build("quick", 0)["queries"]:
        if q.qid == case.get("query"):
            rep, detail, _ = q.replay(case["args"])
            return rep, detail
    return False, "native cases: re-run ./check C17"
