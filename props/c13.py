"""C13  Fixed-width reading is lossless and aligned.  (DESIGN.md section 6, C13)

Real rowio.fixed_rows on S-STREAM; the whole input text is symbolic (any Unicode, bounded length).
Post: DataFormatError <=> text not in the language {records of exactly sum(widths) characters separated by a
permitted delimiter, final one optional}; otherwise the rows are the records cut at the widths."""
import itertools

from vlib.engine import Query, assume
from vlib.envstubs import patched, quiet_repr

FUNCS = ("cutplace.rowio.fixed_rows", "cutplace.interface.field_names_and_lengths")
DELIMS = {"any": "any", "lf": "\n", "cr": "\r", "crlf": "\r\n", "none": None}


class Stream:
    """S-STREAM: read(n) returns the next (up to) n characters of a text"""

    def __init__(self, text):
        self.text = text
        self.pos = 0

    def read(self, n):
        r = self.text[self.pos:self.pos + n]
        self.pos += len(r)
        return r


def spec_parse(text, widths, delim):
    """Reference recogniser, written independently of cutplace: list of rows, or None if not in the language."""
    total = sum(widths)
    rows = []
    pos = 0
    n = len(text)
    if n == 0:
        return []
    while True:
        if n - pos < total:
            return None
        rec = text[pos:pos + total]
        pos += total
        row = []
        o = 0
        for w in widths:
            row.append(rec[o:o + w])
            o += w
        rows.append(row)
        if pos == n:
            return rows  # final delimiter optional
        if delim is None:
            continue
        if delim == "any":
            c = ord(text[pos])
            if c == 13:
                if pos + 1 < n and ord(text[pos + 1]) == 10:
                    pos += 2
                else:
                    pos += 1
            elif c == 10:
                pos += 1
            else:
                return None
        else:
            if text[pos:pos + len(delim)] != delim:
                return None
            pos += len(delim)
        if pos == n:
            return rows


def make(widths, delim, maxlen, encoding="ascii"):
    def mk(mode):
        def h(text: str):
            from cutplace import rowio, errors

            assume(len(text) <= maxlen)
            fl = [("f%d" % i, w) for i, w in enumerate(widths)]
            with patched(quiet_repr()):
                try:
                    got = list(rowio.fixed_rows(Stream(text), encoding, fl, delim))
                except errors.DataFormatError:
                    got = None
            exp = spec_parse(text, widths, delim)
            if exp is None:
                return got is None, "error"
            return got == exp, ("rows%d" % len(exp) if len(exp) < 3 else "rows3+")

        return h

    def replay(args):
        import io
        from cutplace import rowio, errors

        text = args["text"]
        fl = [("f%d" % i, w) for i, w in enumerate(widths)]
        try:
            got = list(rowio.fixed_rows(io.StringIO(text, newline=""), encoding, fl, delim))
        except errors.DataFormatError as e:
            got = None
        except Exception as e:  # noqa
            return True, "fixed_rows(%r, widths=%r, delimiter=%r) raised %s: %s" % (text, widths, delim,
                                                                                   type(e).__name__, e), "fixed-rows"
        exp = spec_parse(text, widths, delim)
        return got != exp, "fixed_rows(%r, widths=%r, delimiter=%r) -> %r, expected %r" % (text, widths, delim, got, exp), \
            "fixed-rows"

    return mk, replay


def width_lists():
    out = []
    for n in (1, 2, 3):
        out += list(itertools.product((1, 2, 3), repeat=n))
    return out  # 39


def native_long_inputs():
    """concrete: inputs far beyond the solver's bound (tens of thousands of characters, i.e. several buffer blocks of
    any plausible size), through a text stream and through a file given by path, against the same reference
    recogniser; also field contents that contain line-delimiter characters.  Exploration, not a solver verdict."""
    import io
    import os
    import shutil
    import tempfile
    from cutplace import rowio, errors
    failures = []
    n = 0
    d = tempfile.mkdtemp(prefix="c13native")
    alphabet = "0123456789abcdefghijklmnopqrstuvwxyzABCDEFGHIJKLMNOPQRSTUVWXYZ"
    try:
        cases = []
        for widths in ((5, 3, 1), (2,), (3, 4), (1,), (7,), (2, 1)):
            total = sum(widths)
            for dname, delim in DELIMS.items():
                sep = {"any": "\r\n", None: ""}.get(delim, delim)
                for nrec in (700, 2500, 5000):
                    recs = []
                    for i in range(nrec):
                        body = "".join(alphabet[(i * 7 + j * 3) % len(alphabet)] for j in range(total))
                        recs.append(body)
                    for final in (True, False):
                        text = sep.join(recs) + (sep if final else "")
                        cases.append((widths, dname, delim, text, "%d records%s" % (nrec, "" if final else " without final delimiter")))
                # a truncated last record far into the data
                text = sep.join(recs) + sep + recs[0][:max(1, total - 1)] if total > 1 else None
                if text is not None:
                    cases.append((widths, dname, delim, text, "truncated last record"))
        # field contents containing delimiter characters (reading goes by character count only)
        cases.append(((2, 5), "lf", "\n", "01ab\ncd\n02hello\n", "line feed inside a field"))
        cases.append(((2, 5), "any", "any", "01ab\rcd\n02he\nlo\r\n", "CR / LF inside fields"))
        cases.append(((2, 5), "crlf", "\r\n", "01a\r\ncd\r\n02hello\r\n", "CRLF inside a field"))
        cases.append(((3,), "none", None, "a\nb\r\nc", "delimiter characters without delimiter"))
        for widths, dname, delim, text, what in cases:
            n += 1
            exp = spec_parse(text, list(widths), delim)
            fl = [("f%d" % i, w) for i, w in enumerate(widths)]
            path = os.path.join(d, "long.txt")
            with open(path, "w", newline="", encoding="ascii") as f:
                f.write(text)
            for how, source in (("stream", lambda: io.StringIO(text, newline="")), ("path", lambda: path)):
                try:
                    got = list(rowio.fixed_rows(source(), "ascii", fl, delim))
                except errors.DataFormatError:
                    got = None
                except Exception as e:  # noqa
                    failures.append(dict(key="fixed-rows-long", what="widths %r, delimiter %s, %s (%d characters, %s) raised %s: %s" % (
                        widths, dname, what, len(text), how, type(e).__name__, e), args=dict(widths=list(widths), delimiter=dname, case=what)))
                    continue
                if got != exp:
                    where = None
                    if got is not None and exp is not None:
                        where = next((i for i, (a, b) in enumerate(zip(got, exp)) if a != b), min(len(got), len(exp)))
                    failures.append(dict(key="fixed-rows-long", what="widths %r, delimiter %s, %s (%d characters, %s): %s" % (
                        widths, dname, what, len(text), how,
                        "rejected although well-formed" if got is None else "accepted although malformed" if exp is None else
                        "rows differ from row %r on: got %r expected %r" % (where, got[where:where + 1], exp[where:where + 1])),
                        args=dict(widths=list(widths), delimiter=dname, case=what)))
        # non-ASCII records, every delimiter, read from a UTF-8 / UTF-16 file by path and from a stream that offers
        # nothing but read() (a pipe, a decoder): the same rows
        class ReadOnly:
            def __init__(self, text):
                self._inner = io.StringIO(text, newline="")

            def read(self, count=-1):
                return self._inner.read(count)

        for dname, delim in DELIMS.items():
            for sep in (["\r", "\n", "\r\n"] if delim == "any" else [""] if delim is None else [delim]):
                text = sep.join(["\u00e91", "\u00fc2", "\u20ac3", "ab"]) + sep
                exp = spec_parse(text, [2], delim)
                for enc in ("utf-8", "utf-16", "cp1252"):
                    n += 1
                    path = os.path.join(d, "nonascii.txt")
                    with open(path, "w", newline="", encoding=enc) as f:
                        f.write(text)
                    for how, source in (("path", lambda: path), ("read()-only stream", lambda: ReadOnly(text))):
                        try:
                            got = list(rowio.fixed_rows(source(), enc, [("f", 2)], delim))
                        except errors.DataFormatError as e:
                            got = "DataFormatError: %s" % e
                        except Exception as e:  # noqa
                            got = "%s: %s" % (type(e).__name__, e)
                        if got != exp:
                            failures.append(dict(key="fixed-rows-long", what="non-ASCII records %r, delimiter %s, encoding %s, %s: %r expected %r" % (
                                text, dname, enc, how, got, exp), args=dict(delimiter=dname, encoding=enc, how=how)))
        # malformed fixed data through the validator: a data format error in each of the three error modes
        from cutplace import interface, validio
        for bad in ("ab\ncd\ne", "ab\ncdX", "ab\rcd\n", "a", "ab\n\ncd\n"):
            for mode in ("raise", "yield", "continue"):
                n += 1
                cid = interface.create_cid_from_string("d,format,fixed\nd,line delimiter,lf\nf,x,,,2\n")
                try:
                    produced = list(validio.rows(cid, io.StringIO(bad, newline=""), on_error=mode))
                    failures.append(dict(key="fixed-rows-modes", what="malformed fixed data %r in mode %s: no data format error (%r)" % (bad, mode, produced),
                                         args=dict(text=bad, mode=mode)))
                except errors.DataFormatError:
                    pass
                except Exception as e:  # noqa
                    failures.append(dict(key="fixed-rows-modes", what="malformed fixed data %r in mode %s raised %s: %s" % (bad, mode, type(e).__name__, e),
                                         args=dict(text=bad, mode=mode)))
    finally:
        shutil.rmtree(d, ignore_errors=True)
    return dict(count=n, failures=failures, samples=[])


def build(tier, seed):
    import random
    rnd = random.Random(seed)
    queries = []
    if tier == "quick":
        core = [(2, 1), (1,), (2,), (1, 1), (3, 1, 2), (1, 2)]
        shapes = [(w, d) for w in core for d in DELIMS]
        extra = [(w, d) for w in width_lists() if w not in core for d in DELIMS]
        shapes += rnd.sample(extra, 10)
        maxlen = 8
        budget = 150
    else:
        shapes = [(w, d) for w in width_lists() for d in DELIMS]
        maxlen = 15
        budget = 3000
    for w, d in shapes:
        ml = maxlen
        if tier == "thorough" and sum(w) == 1:
            ml = 12
        mk, rp = make(list(w), DELIMS[d], ml)
        exp = ("rows0", "rows1") if (sum(w) == 1 and DELIMS[d] is None) else ("error", "rows0", "rows1")
        queries.append(Query("C13/widths=%s/%s/len<=%d" % ("-".join(map(str, w)), d, ml), "fixed", mk,
                             "widths %r, line delimiter %r, every Unicode text of length <= %d" % (w, d, ml),
                             budget_s=budget, per_path_timeout=60, expect=exp, replay=rp, functions=FUNCS,
                             stubs=("S-STREAM text stream stub (read(n) = next n characters)", "S-FMT")))
    # the encoding argument names how a *path* would be opened; for an open text stream the rows are the same whatever
    # it says (a U+FEFF in the text is a character like any other)
    for w, d, enc in (((2, 1), "lf", "utf-8"), ((1, 1), "none", "UTF_8"), ((2,), "any", "utf-8-sig"), ((1, 2), "crlf", "utf-16"),
                      ((2, 1), "any", "cp1252")):
        ml = 6 if tier == "quick" else 9
        mk, rp = make(list(w), DELIMS[d], ml, enc)
        queries.append(Query("C13/widths=%s/%s/len<=%d/encoding=%s" % ("-".join(map(str, w)), d, ml, enc), "fixed", mk,
                             "widths %r, line delimiter %r, encoding argument %r, every Unicode text of length <= %d" % (w, d, enc, ml),
                             budget_s=budget, per_path_timeout=60, replay=rp, functions=FUNCS,
                             stubs=("S-STREAM text stream stub (read(n) = next n characters)", "S-FMT")))
    return dict(queries=queries, native=native_long_inputs,
                assumptions=["the stream delivers characters exactly as io.StringIO(text, newline='') does"],
                outside_claim=["texts longer than the bound", "byte decoding (codecs)", "more than 3 fields / widths above 3"],
                exhaustive=(tier == "thorough"))


def replay_case(case):
    for q in build("thorough", 0)["queries"] + build("quick", 0)["queries"]:
        if q.qid == case.get("query"):
            rep, detail, _ = q.replay(case["args"])
            return rep, detail
    return False, "no such query"
