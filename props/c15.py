"""C15  ODS sheets are read as the logical table they contain.  (DESIGN.md section 6, C15)

rowio.ods_rows' own logic over REAL xml.etree trees: content.xml documents are produced by an independent encoder
(below), parsed natively by ElementTree, then attribute values / texts are replaced by symbolic strings; the zip
layer is a stub (S-ZIP) that can also fail with any of the exception types zipfile / zlib document."""
import io
import zipfile
import zlib
from xml.etree import ElementTree

from vlib.engine import Query, assume
from vlib.envstubs import patched
from vlib import rowflow as rf

FUNCS = ("cutplace.rowio.ods_rows", "cutplace.rowio._findall")
NS = {"office": "urn:oasis:names:tc:opendocument:xmlns:office:1.0", "table": "urn:oasis:names:tc:opendocument:xmlns:table:1.0",
      "text": "urn:oasis:names:tc:opendocument:xmlns:text:1.0"}
T = "{%s}" % NS["table"]
X = "{%s}" % NS["text"]


# ------------------------------------------------------------------ independent ODF encoder
def esc(s):
    return s.replace("&", "&amp;").replace("<", "&lt;").replace(">", "&gt;").replace('"', "&quot;")


def encode_text(text, ws_elements=False, span_at=None, paragraphs=False, empty_paragraph=False):
    """text -> the children of a table-cell (one or more text:p)"""
    if text == "":
        return "<text:p/>" if empty_paragraph else ""
    parts = text.split("\n") if paragraphs else [text]
    out = ""
    for part in parts:
        body = ""
        i = 0
        while i < len(part):
            c = part[i]
            if ws_elements and c == " " and i + 1 < len(part) and part[i + 1] == " ":
                j = i
                while j < len(part) and part[j] == " ":
                    j += 1
                body += ' <text:s text:c="%d"/>' % (j - i - 1) if j - i > 2 else " <text:s/>"
                i = j
                continue
            if ws_elements and c == "\t":
                body += "<text:tab/>"
            elif ws_elements and c == "\n":
                body += "<text:line-break/>"
            else:
                body += esc(c)
            i += 1
        if span_at is not None and len(part) > span_at and "<" not in body[:span_at + 1]:
            if ws_elements:
                # the rest of the paragraph (white space elements included) inside a span, itself nested in a span
                rest = body[len(esc(part[:span_at])):]
                body = esc(part[:span_at]) + '<text:span text:style-name="T1"><text:span>' + rest + "</text:span></text:span>"
            else:
                body = esc(part[:span_at]) + '<text:span text:style-name="T1">' + esc(part[span_at:]) + "</text:span>"
        out += "<text:p>%s</text:p>" % body
    return out


def encode_sheet(name, rows, column_runs=False, row_runs=False, **text_opts):
    out = '<table:table table:name="%s">' % esc(name)
    width = max([len(r) for r in rows] + [1])
    out += '<table:table-column table:number-columns-repeated="%d"/>' % width
    r = 0
    while r < len(rows):
        run = 1
        if row_runs:
            while r + run < len(rows) and rows[r + run] == rows[r]:
                run += 1
        out += "<table:table-row%s>" % (' table:number-rows-repeated="%d"' % run if run > 1 else "")
        row = rows[r]
        c = 0
        while c < len(row):
            crun = 1
            if column_runs:
                while c + crun < len(row) and row[c + crun] == row[c]:
                    crun += 1
            attrs = ' table:number-columns-repeated="%d"' % crun if crun > 1 else ""
            if row[c] == "" and not text_opts.get("empty_paragraph"):
                out += "<table:table-cell%s/>" % attrs
            else:
                out += '<table:table-cell office:value-type="string"%s>%s</table:table-cell>' % (
                    attrs, encode_text(row[c], **text_opts))
            c += crun
        out += "</table:table-row>"
        r += run
    return out + "</table:table>"


def encode_document(sheets, **opts):
    """sheets: list of (name, rows)"""
    return ('<?xml version="1.0" encoding="UTF-8"?><office:document-content xmlns:office="%s" xmlns:table="%s" '
            'xmlns:text="%s" office:version="1.2"><office:body><office:spreadsheet>%s</office:spreadsheet></office:body>'
            "</office:document-content>") % (NS["office"], NS["table"], NS["text"],
                                           "".join(encode_sheet(n, r, **opts) for n, r in sheets))


def write_ods(path, content_xml):
    with zipfile.ZipFile(path, "w", zipfile.ZIP_DEFLATED) as z:
        z.writestr("mimetype", "application/vnd.oasis.opendocument.spreadsheet")
        z.writestr("content.xml", content_xml)


# ------------------------------------------------------------------ S-ZIP / S-XML
ARCHIVE_FAULTS = [None, zipfile.BadZipFile("stub"), KeyError("content.xml"), OSError("stub"), zlib.error("stub"),
                  NotImplementedError("compression type not supported (stub)"), RuntimeError("encrypted (stub)"),
                  EOFError("stub"), ValueError("stub")]


class FakeZipModule:
    def __init__(self, open_fault, read_fault):
        outer = self
        self.BadZipFile = zipfile.BadZipFile

        class ZipFile:
            def __init__(self, path, mode="r"):
                if open_fault is not None:
                    raise open_fault

            def read(self, name):
                if read_fault is not None:
                    raise read_fault
                return b"<stub/>"

            def close(self):
                outer.closed = True

            def __enter__(self):
                return self

            def __exit__(self, *exc):
                self.close()
                return False

        self.ZipFile = ZipFile
        self.closed = False

    def __getattr__(self, name):
        return getattr(zipfile, name)


class FakeEtModule:
    def __init__(self, root, parse_fault=None):
        self.root = root
        self.parse_fault = parse_fault
        self.ParseError = ElementTree.ParseError

    def parse(self, stream):
        if self.parse_fault is not None:
            raise self.parse_fault
        root = self.root

        class Tree:
            def getroot(self):
                return root

        return Tree()

    def fromstring(self, data, parser=None):
        # (the other documented way to get the root element of a document)
        if self.parse_fault is not None:
            raise self.parse_fault
        return self.root

    XML = fromstring

    def __getattr__(self, name):
        return getattr(ElementTree, name)


class MultiInt:
    """S-INT for several calls: the i-th call fails or returns the i-th value; records the texts"""

    def __init__(self, values, fails):
        self.values = values
        self.fails = fails
        self.seen = []

    def __call__(self, text, *a):
        i = len(self.seen)
        self.seen.append(text)
        if self.fails[i]:
            raise ValueError("stub")
        return self.values[i]


def read_ods(root, sheet, int_stub=None, open_fault=None, read_fault=None, parse_fault=None):
    """-> ('rows', rows) | ('dfe',) ; any other exception propagates"""
    from cutplace import rowio, errors

    trip = [(rowio, "zipfile", FakeZipModule(open_fault, read_fault)), (rowio, "ElementTree", FakeEtModule(root, parse_fault))]
    if int_stub is not None:
        trip.append((rowio, "int", int_stub))
    with patched(rf.smart_repr(), *trip):
        try:
            return ("rows", list(rowio.ods_rows("stub.ods", sheet)))
        except errors.DataFormatError:
            return ("dfe",)


def parse_native(xml):
    with rf.untraced():
        return ElementTree.parse(io.BytesIO(xml.encode("utf-8"))).getroot()


def cells_of(root):
    with rf.untraced():
        return list(root.iter(T + "table-cell"))


def same_rows(got, exp):
    if len(got) != len(exp):
        return False
    for g, e in zip(got, exp):
        if len(g) != len(e):
            return False
        for a, b in zip(g, e):
            if a is None or len(a) != len(b):
                return False
            for i in range(len(b)):
                if ord(a[i]) != ord(b[i]):
                    return False
    return True


# ------------------------------------------------------------------ queries
def make_repeat():
    """2 rows x 2 cells, every number-columns-repeated value symbolic (S-INT)"""
    base = [["a", "b"], ["c", ""]]
    xml = encode_document([("s1", base)])

    def go(n0, n1, n2, n3, f0, f1, f2, f3):
        root = parse_native(xml)
        cells = cells_of(root)
        for c in cells:
            c.set(T + "number-columns-repeated", "<n>")
        ns = [n0, n1, n2, n3]
        fs = [f0, f1, f2, f3]
        for n in ns:
            assume(n <= 3)
        stub = MultiInt(ns, fs)
        res = read_ods(root, 1, stub)
        # expectation: rows are produced lazily, so a bad count in row 2 surfaces after row 1 was yielded: either way
        # the call as a whole ends in DataFormatError
        bad = False
        for i in range(4):
            if fs[i] or ns[i] < 1:
                bad = True
        if bad:
            return res[0] == "dfe", "dfe"
        exp = [["a"] * n0 + ["b"] * n1, ["c"] * n2 + [""] * n3]
        return res[0] == "rows" and same_rows(res[1], exp), "rows"

    def mk(mode):
        def h(n0: int, n1: int, n2: int, n3: int, f0: bool, f1: bool, f2: bool, f3: bool):
            return go(n0, n1, n2, n3, f0, f1, f2, f3)

        return h

    def replay(args):
        import os
        import shutil
        import tempfile
        from cutplace import rowio, errors
        ns = [args["n%d" % i] for i in range(4)]
        fs = [args["f%d" % i] for i in range(4)]
        texts = ["x" if fs[i] else str(ns[i]) for i in range(4)]
        x = encode_document([("s1", base)])
        for t, cell in zip(texts, ("a", "b", "c", None)):
            pass
        root = ElementTree.fromstring(x)
        for c, t in zip(root.iter(T + "table-cell"), texts):
            c.set(T + "number-columns-repeated", t)
        ElementTree.register_namespace("table", NS["table"])
        ElementTree.register_namespace("office", NS["office"])
        ElementTree.register_namespace("text", NS["text"])
        d = tempfile.mkdtemp()
        try:
            p = os.path.join(d, "t.ods")
            write_ods(p, ElementTree.tostring(root, encoding="unicode"))
            try:
                got = list(rowio.ods_rows(p, 1))
            except errors.DataFormatError:
                got = "dfe"
            except Exception as e:  # noqa
                return True, "repeat counts %r: %s: %s" % (texts, type(e).__name__, e), "ods-repeat"
            bad = any(fs[i] or ns[i] < 1 for i in range(4))
            exp = "dfe" if bad else [["a"] * ns[0] + ["b"] * ns[1], ["c"] * ns[2] + [""] * ns[3]]
            return got != exp, "repeat counts %r -> %r expected %r" % (texts, got, exp), "ods-repeat"
        finally:
            shutil.rmtree(d)

    return mk, replay


def int_oracle(text):
    """Python's int(text) for short texts: optional blanks around, optional sign, ASCII digits -> value, else None"""
    i, j = 0, len(text)
    while i < j and ord(text[i]) == 32:
        i += 1
    while j > i and ord(text[j - 1]) == 32:
        j -= 1
    neg = False
    if i < j and (ord(text[i]) == 43 or ord(text[i]) == 45):
        neg = ord(text[i]) == 45
        i += 1
    if i >= j:
        return None
    v = 0
    for k in range(i, j):
        o = ord(text[k])
        if not (48 <= o <= 57):
            return None
        v = v * 10 + (o - 48)
    return -v if neg else v


REPEAT_ALPHABET = [ord(c) for c in "0123456789-+ x"] + [0xB2]


def make_repeat_text(maxlen):
    """the repeat count of one cell as TEXT (real int(), no stub): every text up to maxlen over a small alphabet"""
    xml = encode_document([("s1", [["a", "b"]])])

    def go(text):
        assume(len(text) <= maxlen)
        for c in text:
            o = ord(c)
            member = False
            for a in REPEAT_ALPHABET:
                if o == a:
                    member = True
            assume(member)
        root = parse_native(xml)
        cells_of(root)[0].set(T + "number-columns-repeated", text)
        res = read_ods(root, 1)
        v = int_oracle(text)
        if v is None or v < 1:
            return res[0] == "dfe", "dfe"
        assume(v <= 12)
        return res[0] == "rows" and same_rows(res[1], [["a"] * v + ["b"]]), "rows"

    def mk(mode):
        def h(text: str):
            return go(text)

        return h

    def replay(args):
        import os
        import shutil
        import tempfile
        from cutplace import rowio, errors
        text = args["text"]
        root = ElementTree.fromstring(xml)
        next(root.iter(T + "table-cell")).set(T + "number-columns-repeated", text)
        for pre, uri in NS.items():
            ElementTree.register_namespace(pre, uri)
        d = tempfile.mkdtemp()
        try:
            p = os.path.join(d, "t.ods")
            write_ods(p, ElementTree.tostring(root, encoding="unicode"))
            v = int_oracle(text)
            exp = "dfe" if (v is None or v < 1) else [["a"] * v + ["b"]]
            try:
                got = list(rowio.ods_rows(p, 1))
            except errors.DataFormatError:
                got = "dfe"
            except Exception as e:  # noqa
                return True, "number-columns-repeated=%r: %s: %s" % (text, type(e).__name__, e), "ods-repeat-text"
            return got != exp, "number-columns-repeated=%r -> %r expected %r" % (text, got, exp), "ods-repeat-text"
        finally:
            shutil.rmtree(d)

    return mk, replay


def make_sheet():
    sheets = [("one", [["a1"], ["a2"]]), ("two", [["b1", "b2"]]), ("three", [])]
    xml = encode_document(sheets)
    # tables that are NOT sheets: a sub-table inside a cell of sheet one and the cached table of a DDE link
    sub = ('<table:table-cell><table:table table:name="sub" table:is-sub-table="true"><table:table-row><table:table-cell>'
           '<text:p>SUB</text:p></table:table-cell></table:table-row></table:table></table:table-cell>')
    xml = xml.replace("</table:table-row>", sub + "</table:table-row>", 1)
    dde = ('<table:dde-links><table:dde-link><table:table><table:table-row><table:table-cell><text:p>DDE</text:p>'
           '</table:table-cell></table:table-row></table:table></table:dde-link></table:dde-links>')
    xml = xml.replace("</office:spreadsheet>", dde + "</office:spreadsheet>")
    sheets[0] = ("one", [["a1", ""], ["a2"]])

    def mk(mode):
        def h(k: int):
            assume(1 <= k <= 5)
            root = parse_native(xml)
            res = read_ods(root, k)
            if k > 3:
                return res[0] == "dfe", "missing"
            return res[0] == "rows" and same_rows(res[1], sheets[k - 1][1]), ("sheet1", "sheet2", "sheet3")[k - 1]

        return h

    return mk


def make_texts(maxlen):
    """the texts of 3 cells are symbolic (non-empty; empty paragraphs are a feature variant of the native part)"""
    xml = encode_document([("s", [["p", "q"], ["r", "fixed"]])])

    def mk(mode):
        def h(t0: str, t1: str, t2: str):
            for t in (t0, t1, t2):
                assume(1 <= len(t) <= maxlen)
            root = parse_native(xml)
            with rf.untraced():
                ps = list(root.iter(X + "p"))
            for p, t in zip(ps[:3], (t0, t1, t2)):
                p.text = t
            res = read_ods(root, 1)
            exp = [[t0, t1], [t2, "fixed"]]
            return res[0] == "rows" and same_rows(res[1], exp), "rows"

        return h

    def replay(args):
        import os
        import shutil
        import tempfile
        from cutplace import rowio
        table = [[args["t0"], args["t1"]], [args["t2"], "fixed"]]
        d = tempfile.mkdtemp()
        try:
            p = os.path.join(d, "t.ods")
            # texts that XML cannot carry (control characters) are not a finding of ods_rows
            try:
                write_ods(p, encode_document([("s", table)]))
                back = ElementTree.parse(io.BytesIO(zipfile.ZipFile(p).read("content.xml")))
            except Exception as e:  # noqa
                return False, "table %r is not representable as XML: %s" % (table, e), "ods-text"
            ps = [(e.text or "") for e in back.getroot().iter(X + "p")]
            if ps != [c for row in table for c in row if c != ""]:
                return False, "table %r does not survive the XML parser (white space / control characters)" % (table,), "ods-text"
            got = list(rowio.ods_rows(p, 1))
            return got != table, "table %r read as %r" % (table, got), "ods-empty-paragraph" if any(
                c is None for r in got for c in r) else "ods-text"
        finally:
            shutil.rmtree(d)

    return mk, replay


def make_faults():
    xml = encode_document([("s", [["a"]])])

    def mk(mode):
        def h(stage: int, kind: int):
            assume(0 <= stage <= 2 and 1 <= kind <= len(ARCHIVE_FAULTS) - 1)
            root = parse_native(xml)
            fault = ARCHIVE_FAULTS[kind]
            if stage == 2:
                fault = ElementTree.ParseError("stub") if kind % 2 else ValueError("stub")
            res = read_ods(root, 1, open_fault=fault if stage == 0 else None, read_fault=fault if stage == 1 else None,
                           parse_fault=fault if stage == 2 else None)
            return res[0] == "dfe", ("stage0", "stage1", "stage2")[stage]

        return h

    return mk


# ------------------------------------------------------------------ native: each optional ODF encoding feature on a real file
FEATURE_TABLES = [
    [["10\u00a0000", "\u5c71\u7530\u3000\u592a\u90ce"], ["a\u2009b", "x\u00a0\u00a0y"]],  # non-ASCII spaces are ordinary characters
    [["a", "a", "b"], ["", "", "x"], ["1", "2", "3"]],
    [["same", "row"], ["same", "row"], ["same", "row"], ["other", "row"]],
    [["two  blanks", "tab\there"], ["line\nbreak", "  lead"]],
    [["<&>\"'", "äöü€"], ["", ""]],
    [["p1\np2", "plain"]],
]


def native_features():
    import os
    import shutil
    import tempfile
    from cutplace import rowio, errors
    failures = []
    samples = []
    n = 0
    d = tempfile.mkdtemp()
    try:
        variants = [("plain", {}), ("column-runs", dict(column_runs=True)), ("row-runs", dict(row_runs=True)),
                    ("whitespace-elements", dict(ws_elements=True)), ("span", dict(span_at=1)),
                    ("paragraphs", dict(paragraphs=True)), ("empty-paragraph", dict(empty_paragraph=True)),
                    ("whitespace-elements-inside-spans", dict(ws_elements=True, span_at=1)),
                    ("all-features", dict(ws_elements=True, span_at=2, column_runs=True, empty_paragraph=True)),
                    ("indented", dict(ws_elements=True)), ("indented-paragraphs", dict(ws_elements=True, paragraphs=True)),
                    ("indented-spans", dict(ws_elements=True, span_at=1))]
        for ti, table in enumerate(FEATURE_TABLES):
            for vname, opts in variants:
                if vname in ("paragraphs", "indented-paragraphs") and not any("\n" in c for r in table for c in r):
                    continue
                if vname == "plain" and any(("\n" in c or "\t" in c or "  " in c) for r in table for c in r):
                    continue  # without ODF white space elements an XML parser may normalise such text
                n += 1
                p = os.path.join(d, "t%d_%s.ods" % (ti, vname))
                doc = encode_document([("first", [["other"]]), ("second", table)], **opts)
                if vname.startswith("indented"):
                    # what a pretty printer does: line breaks and indentation between the elements outside paragraphs
                    import re as _re
                    doc = _re.sub(r"(</text:p>|<text:p/>|</table:table-cell>|</table:table-row>|<table:table-row[^>/]*>|"
                                  r"<table:table-cell[^>/]*>|<table:table-cell[^>]*/>)", lambda m: m.group(1) + "\n      ", doc)
                write_ods(p, doc)
                try:
                    got = list(rowio.ods_rows(p, 2))
                except Exception as e:  # noqa
                    got = "%s: %s" % (type(e).__name__, e)
                if got != table:
                    key = {"row-runs": "ods-row-repeat-ignored", "whitespace-elements": "ods-whitespace-elements-lost",
                           "whitespace-elements-inside-spans": "ods-whitespace-elements-lost",
                           "span": "ods-span-text-lost", "paragraphs": "ods-further-paragraphs-lost"}.get(vname, "ods-" + vname)
                    if vname == "column-runs" and any(c is None for r in (got if isinstance(got, list) else []) for c in r):
                        key = "ods-empty-paragraph"
                    failures.append(dict(key=key, what="ODS feature %s: table %r read as %r" % (vname, table, got),
                                         args=dict(feature=vname, table=table)))
                elif len(samples) < 2:
                    samples.append(dict(query="native/feature", feature=vname, table=table))
        # text:s with an explicit count of 0 (nonNegativeInteger) and of 1; a document in a single-byte encoding
        n += 1
        p = os.path.join(d, "count0.ods")
        doc = encode_document([("s", [["AB", "CD"]])]).replace("<text:p>AB</text:p>", '<text:p>A<text:s text:c="0"/>B</text:p>').replace(
            "<text:p>CD</text:p>", '<text:p>C<text:s text:c="1"/>D</text:p>')
        write_ods(p, doc)
        try:
            got = list(rowio.ods_rows(p, 1))
        except Exception as e:  # noqa
            got = "%s: %s" % (type(e).__name__, e)
        if got != [["AB", "C D"]]:
            failures.append(dict(key="ods-text-s-count", what="text:s with text:c 0 / 1 read as %r, expected [['AB', 'C D']]" % (got,), args={}))
        for enc in ("iso-8859-1", "windows-1252", "utf-16", "utf-16-be", "utf-16-le", "utf-8", "utf-8-sig", "us-ascii"):
            for tail in ("", "\n", "\r\n \n"):
                n += 1
                p = os.path.join(d, "enc_%s_%d.ods" % (enc, len(tail)))
                table = [["K\xe4se", "na\xefve"]] if enc != "us-ascii" else [["Kaese", "naive"]]
                declared = {"utf-16-be": "UTF-16", "utf-16-le": "UTF-16", "utf-8-sig": "UTF-8"}.get(enc, enc)
                doc = encode_document([("s", table)]).replace('encoding="UTF-8"', 'encoding="%s"' % declared) + tail
                payload = doc.encode(enc)
                if enc == "utf-16-be":
                    payload = b"\xfe\xff" + payload
                elif enc == "utf-16-le":
                    payload = b"\xff\xfe" + payload
                with zipfile.ZipFile(p, "w", zipfile.ZIP_DEFLATED) as z:
                    z.writestr("mimetype", "application/vnd.oasis.opendocument.spreadsheet")
                    z.writestr("content.xml", payload)
                try:
                    got = list(rowio.ods_rows(p, 1))
                except Exception as e:  # noqa
                    got = "%s: %s" % (type(e).__name__, e)
                if got != table:
                    failures.append(dict(key="ods-document-encoding", what="content.xml encoded as %s (trailing %r) read as %r" % (enc, tail, got),
                                         args=dict(encoding=enc, tail=tail)))
        # documents the XML parser cannot decode (multi-byte / unknown encodings): a data format error like any other
        for enc_name in ("Shift_JIS", "EUC-JP", "GB2312", "no-such-encoding", "utf-32"):
            n += 1
            p = os.path.join(d, "undecodable_%s.ods" % enc_name.replace("-", "_"))
            doc = encode_document([("s", [["a", "b"]])]).replace('encoding="UTF-8"', 'encoding="%s"' % enc_name)
            with zipfile.ZipFile(p, "w", zipfile.ZIP_DEFLATED) as z:
                z.writestr("mimetype", "application/vnd.oasis.opendocument.spreadsheet")
                z.writestr("content.xml", doc.encode("ascii"))
            try:
                got = list(rowio.ods_rows(p, 1))
                if got != [["a", "b"]]:
                    failures.append(dict(key="ods-document-encoding", what="content.xml declaring %s read as %r" % (enc_name, got), args=dict(encoding=enc_name)))
            except errors.DataFormatError:
                pass
            except Exception as e:  # noqa
                failures.append(dict(key="ods-fault-encoding", what="content.xml declaring %s raised %s: %s" % (enc_name, type(e).__name__, e),
                                     args=dict(encoding=enc_name)))
        # documents without a spreadsheet body / without any sheet / with one sheet less than requested
        one = encode_document([("s", [["a"]])])
        import re as _re2
        no_tables = _re2.sub(r"<table:table .*</table:table>", "", one)
        no_body = _re2.sub(r"<office:spreadsheet>.*</office:spreadsheet>", "<office:text/>", one)
        for what, doc, sheet in (("one sheet, sheet 2 requested", one, 2), ("one sheet, sheet 3 requested", one, 3), ("no sheet at all", no_tables, 1),
                                 ("no sheet at all, sheet 2 requested", no_tables, 2), ("no spreadsheet body (a text document)", no_body, 1),
                                 ):
            n += 1
            p = os.path.join(d, "missing_sheet.ods")
            write_ods(p, doc)
            try:
                got = list(rowio.ods_rows(p, sheet))
                failures.append(dict(key="ods-missing-sheet", what="%s: read as %r instead of a data format error" % (what, got), args=dict(case=what)))
            except errors.DataFormatError:
                pass
            except Exception as e:  # noqa
                failures.append(dict(key="ods-missing-sheet", what="%s: raised %s: %s" % (what, type(e).__name__, e), args=dict(case=what)))
        if no_tables == one or no_body == one:
            failures.append(dict(key="harness", what="could not build the documents without sheets", args={}))
        # a commented cell: the paragraphs of the office:annotation are not part of the cell's value; covered cells
        # (table:covered-table-cell) take a column like any cell
        n += 1
        p = os.path.join(d, "annotated.ods")
        doc = encode_document([("s", [["Miller", "x"], ["plain", "y"]])])
        doc2 = doc.replace("<text:p>Miller</text:p>", '<office:annotation><text:p>double check</text:p><text:p>this</text:p>'
                           '</office:annotation><text:p>Miller</text:p>')
        write_ods(p, doc2)
        try:
            got = list(rowio.ods_rows(p, 1))
        except Exception as e:  # noqa
            got = "%s: %s" % (type(e).__name__, e)
        if doc2 == doc or got != [["Miller", "x"], ["plain", "y"]]:
            failures.append(dict(key="ods-annotation", what="sheet with a commented cell read as %r" % (got,), args={}))
        # the same path read again after the document changed (nothing about an earlier read may be remembered)
        p = os.path.join(d, "changing.ods")
        for version, table in enumerate(([["v1", "a"]], [["v2", "b"], ["v2", "c"]])):
            n += 1
            write_ods(p, encode_document([("s", table)] + ([("extra", [["x"]])] if version == 0 else [])))
            try:
                got = list(rowio.ods_rows(p, 1))
            except Exception as e:  # noqa
                got = "%s: %s" % (type(e).__name__, e)
            if got != table:
                failures.append(dict(key="ods-stale-document", what="document at the same path changed: read %r, expected %r" % (got, table),
                                     args=dict(version=version)))
        n += 1
        try:
            list(rowio.ods_rows(p, 2))
            failures.append(dict(key="ods-stale-document", what="sheet 2 of the changed document (which has one sheet) was read", args={}))
        except errors.DataFormatError:
            pass
        with open(p, "w") as f:
            f.write("not a zip any more")
        n += 1
        try:
            list(rowio.ods_rows(p, 1))
            failures.append(dict(key="ods-stale-document", what="a path whose file became a non-zip was still read", args={}))
        except errors.DataFormatError:
            pass
        # error cases on real files
        for name, maker in (("not-a-zip", lambda p: open(p, "w").write("hello")),
                            ("no-content-xml", lambda p: zipfile.ZipFile(p, "w").writestr("x", "y")),
                            ("malformed-xml", lambda p: write_ods(p, "<a><b></a>")),
                            ("truncated", None), ("corrupt-deflate", None)):
            n += 1
            p = os.path.join(d, name + ".ods")
            if maker is not None:
                maker(p)
            else:
                write_ods(p, encode_document([("s", [["a" * 300, "b" * 300]] * 20)]))
                raw = bytearray(open(p, "rb").read())
                if name == "truncated":
                    raw = raw[:len(raw) // 2]
                else:
                    i = raw.find(b"content.xml") + len("content.xml") + 4
                    raw[i:i + 4] = b"\xff\xff\xff\xff"
                open(p, "wb").write(bytes(raw))
            try:
                list(rowio.ods_rows(p, 1))
                failures.append(dict(key="ods-fault-" + name, what="broken ODS (%s) was read without an error" % name, args=dict(case=name)))
            except errors.DataFormatError:
                pass
            except Exception as e:  # noqa
                failures.append(dict(key="ods-fault-" + name, what="broken ODS (%s) raised %s: %s" % (name, type(e).__name__, e),
                                     args=dict(case=name)))
    finally:
        shutil.rmtree(d)
    return dict(count=n, failures=failures, samples=samples)


def build(tier, seed):
    q = []
    mk, rp = make_repeat()
    q.append(Query("C15/column-repeat", "repeat", mk,
                   "2x2 sheet, every number-columns-repeated value symbolic (any integer <= 3 or unparsable)", budget_s=600,
                   per_path_timeout=60, expect=("rows", "dfe"), replay=rp, functions=FUNCS,
                   stubs=("S-ZIP", "S-XML (real ElementTree tree of an encoder-made document)", "S-INT rowio.int", "S-FMT")))
    mk, rp = make_repeat_text(2 if tier == "quick" else 3)
    q.append(Query("C15/column-repeat-text", "repeat-text", mk,
                   "number-columns-repeated of one cell as text: every text up to %d characters over %r (real int())" % (
                       2 if tier == "quick" else 3, "".join(chr(a) for a in REPEAT_ALPHABET)), budget_s=900,
                   per_path_timeout=60, expect=("rows", "dfe"), replay=rp, functions=FUNCS, stubs=("S-ZIP", "S-XML", "S-FMT")))
    q.append(Query("C15/sheet-selection", "sheet", make_sheet(), "3-sheet document (with a sub-table and a DDE link table that are not sheets), requested sheet 1..5", budget_s=120,
                   expect=("sheet1", "sheet2", "sheet3", "missing"), functions=FUNCS, stubs=("S-ZIP", "S-XML", "S-FMT")))
    mk, rp = make_texts(2 if tier == "quick" else 4)
    q.append(Query("C15/cell-texts", "texts", mk, "texts of three cells symbolic (any Unicode, 1<=len<=%d)" % (
        2 if tier == "quick" else 4), budget_s=600, per_path_timeout=60, replay=rp, functions=FUNCS,
        stubs=("S-ZIP", "S-XML", "S-FMT")))
    q.append(Query("C15/archive-faults", "faults", make_faults(),
                   "opening the archive / reading content.xml / parsing it fails with any of %d exception types" % (
                       len(ARCHIVE_FAULTS) - 1), budget_s=120, expect=("stage0", "stage1", "stage2"), functions=FUNCS,
                   stubs=("S-ZIP with faults", "S-XML with faults", "S-FMT")))
    return dict(queries=q, native=native_features,
                assumptions=["zipfile / zlib raise one of: BadZipFile, KeyError, OSError, zlib.error, NotImplementedError, "
                             "RuntimeError, EOFError, ValueError; ElementTree raises ParseError"],
                outside_claim=["zip and XML well-formedness themselves (zlib, expat)", "tables above the bounds",
                               "the optional ODF encodings are exercised natively on real files (no quantifier left once "
                               "the document is fixed)"],
                exhaustive=False)


def replay_case(case):
    for q in build("quick", 0)["queries"]:
        if q.qid == case.get("query") and q.replay:
            rep, detail, _ = q.replay(case["args"])
            return rep, detail
    return False, "native cases: re-run ./check C15"
