"""C20  User-defined field formats and checks are driven by the documented call protocol.  (DESIGN.md section 6, C20)

Recording subclasses of AbstractFieldFormat / AbstractCheck (resolved through the real Cid by class name) log every
call; the log must equal the log predicted by the protocol.  Symbolic: header, limit, cells, per-row vetoes of each
check, end-of-data failures."""
from vlib.engine import Query, assume
from vlib.envstubs import patched
from vlib import rowflow as rf

FUNCS = ("cutplace.validio.Reader.rows", "cutplace.validio.BaseValidator.validate_row", "cutplace.validio.BaseValidator.close",
         "cutplace.validio.Writer.__init__", "cutplace.validio.Writer.write_row", "cutplace.validio.Writer.close",
         "cutplace.fields.AbstractFieldFormat.validated", "cutplace.fields.AbstractFieldFormat.validate_characters",
         "cutplace.fields.AbstractFieldFormat.validate_empty", "cutplace.fields.AbstractFieldFormat.validate_length",
         "cutplace.interface.Cid._create_class")

CHECK_NAMES = ["z_first", "a_second", "m_third"]  # declaration order differs from the sorted order on purpose
LOG = []
CTL = {"veto": {}, "endfail": {}}
_classes = []


def rec_classes():
    from cutplace import fields, checks, errors
    if _classes and fields.AbstractFieldFormat not in _classes[0].__mro__:
        del _classes[:]  # the modules were reloaded: define the classes again on the current base classes
    if not _classes:

        class RecFieldFormat(fields.AbstractFieldFormat):
            def __init__(self, field_name, is_allowed_to_be_empty, length, rule, data_format):
                super().__init__(field_name, is_allowed_to_be_empty, length, rule, data_format, empty_value="")

            def validated_value(self, value):
                LOG.append(("value", self.field_name, value))
                if value == "no":
                    raise errors.FieldValueError("rejected by the recording field format")
                return value

        class RecCheck(checks.AbstractCheck):
            def reset(self):
                LOG.append(("reset", self.description))

            def check_row(self, field_name_to_value_map, location):
                LOG.append(("row", self.description, location.line))
                if CTL["veto"].get((self.description, location.line), False):
                    raise errors.CheckError("vetoed by the recording check", location)

            def check_at_end(self, location):
                LOG.append(("end", self.description))
                if CTL["endfail"].get(self.description, False):
                    raise errors.CheckError("end-of-data failure of the recording check", location)

            def cleanup(self):
                LOG.append(("cleanup", self.description))

        _classes.extend([RecFieldFormat, RecCheck])
    return _classes


# field configurations: (empty allowed, length text, lo, hi)
FIELDS = {
    "A": (False, "1...2", 1, 2),
    "B": (True, "...1", 0, 1),
    "C": (False, "", 0, 10 ** 9),
    "D": (False, "1, 3", 1, 3),  # a length made of several items: 2 lies between the outer limits but is not declared
}
LENGTH_GAPS = {"D": (2,)}


def make_cid_text(fkeys, ncheck, fmt, allowed, late_allowed=False):
    lines = ["d,format,%s" % fmt]
    if allowed and not late_allowed:
        lines.append("d,allowed characters,%s" % allowed)
    for i, k in enumerate(fkeys):
        empty, length, _, _ = FIELDS[k]
        if fmt == "fixed":
            length = "2"
        lines.append("f,f%d,,%s,%s,Rec," % (i, "X" if empty else "", '"%s"' % length if "," in length else length))
    if allowed and late_allowed:
        lines.append("d,allowed characters,%s" % allowed)  # a data format row may follow the field rows
    for k in range(ncheck):
        lines.append("c,%s,Rec,whatever" % CHECK_NAMES[k])
    return "\n".join(lines) + "\n"


def predict_cell(k, cell, fmt, allowed):
    """-> ('reject'|'empty'|'hook', value passed to the hook)"""
    empty, _, lo, hi = FIELDS[k]
    if allowed is not None:
        for c in cell:
            if not (allowed[0] <= ord(c) <= allowed[1]):
                return "reject", None
    if fmt == "fixed":
        i, j = 0, len(cell)
        while i < j and cell[i].isspace():
            i += 1
        while j > i and cell[j - 1].isspace():
            j -= 1
        stripped = cell[i:j]
        if len(stripped) == 0:
            if not empty:
                return "reject", None
            if len(cell) > 2:
                return "reject", None
            return "empty", None
        if len(cell) > 2:
            return "reject", None
        return "hook", stripped
    if len(cell) == 0:
        return ("empty", None) if empty else ("reject", None)
    if not (lo <= len(cell) <= hi):
        return "reject", None
    for gap in LENGTH_GAPS.get(k, ()):
        if len(cell) == gap:
            return "reject", None
    return "hook", cell


def predict(fkeys, ncheck, fmt, allowed, header, limit, rows, veto, endfail, mode, writer=False):
    """the call log the protocol prescribes (+ whether close raises)"""
    log = [("reset", CHECK_NAMES[k]) for k in range(ncheck)]
    n = len(fkeys)
    stopped = False
    written = 0  # writer: the location counts the rows written so far, and 'header' refers to them
    for i, row in enumerate(rows, 1):
        if stopped:
            break
        if writer:
            if written < header:
                written += 1
                continue
        else:
            if i <= header:
                continue
            if limit is not None and i > limit:
                continue
        rejected = False
        if len(row) != n:
            rejected = True
        else:
            for j, cell in enumerate(row):
                kind, value = predict_cell(fkeys[j], cell, fmt, allowed)
                if kind == "reject":
                    rejected = True
                    break
                if kind == "hook":
                    log.append(("value", "f%d" % j, value))
                    if value == "no":
                        rejected = True
                        break
            if not rejected:
                for k in range(ncheck):
                    log.append(("row", CHECK_NAMES[k], written if writer else i - 1))
                    if veto[k][written if writer else i - 1]:
                        rejected = True
                        break
        if writer and not rejected:
            written += 1
        if rejected and mode == "raise":
            stopped = True
    close_raises = False
    for k in range(ncheck):
        log.append(("end", CHECK_NAMES[k]))
        if endfail[k]:
            close_raises = True
            break
    for k in range(ncheck):
        log.append(("cleanup", CHECK_NAMES[k]))
    return log, close_raises


def same_log(a, b):
    if len(a) != len(b):
        return False
    for x, y in zip(a, b):
        if len(x) != len(y) or x[0] != y[0] or x[1] != y[1]:
            return False
        if len(x) == 3 and x[2] != y[2]:
            return False
    return True


def make(fkeys, ncheck, nrows, fmt, allowed_text, allowed, mode, runs, ragged=None):
    late = bool(allowed_text) and allowed_text.startswith("late:")
    if late:
        allowed_text = allowed_text[5:]
    text = make_cid_text(fkeys, ncheck, fmt, allowed_text, late)
    n = len(fkeys)
    widths = ragged or [n] * nrows

    def go(header, has_limit, limit, cells, vetoes, endfails):
        from cutplace import validio, errors

        rec_classes()
        rows = []
        ci = 0
        for r in range(nrows):
            row = []
            for j in range(widths[r]):
                row.append(cells[ci])
                ci += 1
            rows.append(row)
        lim = limit if has_limit else None
        veto = [[vetoes[k * nrows + r] for r in range(nrows)] for k in range(ncheck)]
        endfail = [endfails[k] for k in range(ncheck)]
        cid = rf.build_cid(text)
        rf.set_header(cid, header)
        CTL["veto"] = dict(((CHECK_NAMES[k], r), veto[k][r]) for k in range(ncheck) for r in range(nrows))
        CTL["endfail"] = dict((CHECK_NAMES[k], endfail[k]) for k in range(ncheck))
        ok = True
        why = ""
        with patched(rf.smart_repr(), *rf.srows_patches()):
            for run in range(runs):
                del LOG[:]
                close_raised = False
                if mode == "writer":
                    from cutplace import _compat as _cp

                    class _Recorder:
                        def writerow(self, row):
                            pass

                    with patched((_cp, "csv_writer", lambda stream, **kw: _Recorder())):
                        w = validio.Writer(cid, object())
                        for row in rows:
                            try:
                                w.write_row(row)
                            except errors.DataError:
                                pass
                        try:
                            w.close()
                        except errors.CheckError:
                            close_raised = True
                    exp, exp_raise = predict(fkeys, ncheck, fmt, allowed, header, None, rows, veto, endfail, "yield", True)
                elif mode == "reader-twice":
                    # one Reader iterated twice: every pass starts with one reset of every check; one close at the end
                    reader = validio.Reader(cid, rows, on_error="yield", validate_until=lim)
                    for _pass in range(2):
                        for _ in reader.rows():
                            pass
                    try:
                        reader.close()
                    except errors.CheckError:
                        close_raised = True
                    one, exp_raise = predict(fkeys, ncheck, fmt, allowed, header, lim, rows, veto, endfail, "yield")
                    body = [e for e in one if e[0] in ("reset", "value", "row")]
                    exp = body + body + [e for e in one if e[0] in ("end", "cleanup")]
                elif mode == "with-raise":
                    # the validator used as a context manager and left by the first rejection: the checks are still
                    # asked for their end-of-data verdict once and cleaned up (only the verdict's error is dropped)
                    try:
                        with validio.Reader(cid, rows, on_error="raise", validate_until=lim) as reader:
                            for _ in reader.rows():
                                pass
                    except errors.DataError:
                        pass
                    exp, exp_raise = predict(fkeys, ncheck, fmt, allowed, header, lim, rows, veto, endfail, "raise")
                    close_raised = exp_raise
                else:
                    reader = validio.Reader(cid, rows, on_error=mode, validate_until=lim)
                    try:
                        for _ in reader.rows():
                            pass
                    except errors.DataError:
                        pass
                    try:
                        reader.close()
                    except errors.CheckError:
                        close_raised = True
                    exp, exp_raise = predict(fkeys, ncheck, fmt, allowed, header, lim, rows, veto, endfail, mode)
                if not same_log(LOG, exp):
                    ok, why = False, "run %d: call log %r differs from the protocol %r" % (run, list(LOG), exp)
                    break
                if close_raised != exp_raise:
                    ok, why = False, "run %d: close raised=%s expected %s" % (run, close_raised, exp_raise)
                    break
        ncalls = len(LOG)
        return ok, why, ("calls%d" % min(ncalls // 4, 3))

    def mk(m):
        def h(header: int, has_limit: bool, limit: int, c0: str, c1: str, c2: str, c3: str, c4: str, c5: str,
              v0: bool, v1: bool, v2: bool, v3: bool, v4: bool, v5: bool, e0: bool, e1: bool):
            assume(0 <= header <= 2)
            assume(0 <= limit <= nrows + 1)
            cells = [c0, c1, c2, c3, c4, c5]
            for i in range(sum(widths)):
                assume(len(cells[i]) <= (3 if fmt == "fixed" else 2))
            ok, why, cls = go(header, has_limit, limit, cells, [v0, v1, v2, v3, v4, v5], [e0, e1])
            return ok, cls

        return h

    def replay(args):
        cells = [args["c%d" % i] for i in range(6)]
        ok, why, cls = go(args["header"], args["has_limit"], args["limit"], cells,
                          [args["v%d" % i] for i in range(6)], [args["e0"], args["e1"]])
        return (not ok), "%s fields %r checks %d fmt %s allowed %r mode %s header %d limit %r cells %r: %s" % (
            "x".join(map(str, widths)), fkeys, ncheck, fmt, allowed_text, mode, args["header"],
            args["limit"] if args["has_limit"] else None, cells[:sum(widths)], why), "call-protocol"

    return mk, replay


class FakeRowWriter:
    """S-CSVW at the row-writer level: records nothing, keeps the location protocol of AbstractRowWriter"""

    def __init__(self, target, data_format):
        from cutplace import errors
        self._location = errors.Location("<io>", has_cell=True)

    @property
    def location(self):
        return self._location

    def write_row(self, row):
        self._location.advance_line()

    def close(self):
        pass


def native_resolution():
    """class resolution by name (concrete sequences, no quantifier): classes defined AFTER a Cid already exists are
    found by the next Cid exactly like built-ins; dotted type names use the last part; names are case-sensitive"""
    from cutplace import interface, fields, checks, errors
    failures = []
    n = 0
    interface.create_cid_from_string("d,format,delimited\nf,x\n")  # some Cid exists before the classes below are defined

    class LateFieldFormat(fields.AbstractFieldFormat):
        def __init__(self, field_name, is_allowed_to_be_empty, length, rule, data_format):
            super().__init__(field_name, is_allowed_to_be_empty, length, rule, data_format, empty_value="")

        def validated_value(self, value):
            return value

    class LateCheck(checks.AbstractCheck):
        pass

    class CheckDigitCheck(checks.AbstractCheck):  # a type name that itself contains the word "Check"
        pass

    class FieldFormatVersionFieldFormat(fields.AbstractFieldFormat):  # ... and one containing "FieldFormat"
        def __init__(self, field_name, is_allowed_to_be_empty, length, rule, data_format):
            super().__init__(field_name, is_allowed_to_be_empty, length, rule, data_format, empty_value="")

        def validated_value(self, value):
            return value

    for text, ok in (("d,format,delimited\nf,x,,,,Late\nc,some,Late,x\n", True),
                     ("d,format,delimited\nf,x,,,,plugins.Late\n", True),
                     ("d,format,delimited\nf,x,,,,late\n", False),
                     ("d,format,delimited\nf,x\nc,some,late,x\n", False),
                     ("d,format,delimited\nf,x,,,,FieldFormatVersion\nc,digit,CheckDigit,x\n", True),
                     ("d,format,delimited\nf,x,,,,Text\nc,u,IsUnique,x\n", True)):
        n += 1
        try:
            cid = interface.create_cid_from_string(text)
            got = True
            kinds = [type(f).__name__ for f in cid.field_formats] + [type(c).__name__ for c in cid.check_map.values()]
        except errors.InterfaceError as e:
            got, kinds = False, str(e)[:80]
        except Exception as e:  # noqa
            got, kinds = None, "%s: %s" % (type(e).__name__, e)
        if got != ok:
            failures.append(dict(key="class-resolution", what="CID %r: accepted=%r (%s), expected %r" % (text, got, kinds, ok), args=dict(cid=text)))
    # plugin folders: two folders each holding an equally named module with different classes; both get imported
    import gc
    import os
    import shutil
    import tempfile
    d = tempfile.mkdtemp()
    gc_was = gc.isenabled()
    gc.disable()  # plugin classes are only weakly referenced
    try:
        for i, cls in enumerate(("FolderOne", "FolderTwo")):
            folder = os.path.join(d, "plugins%d" % i)
            os.mkdir(folder)
            with open(os.path.join(folder, "myplugin.py"), "w") as f:
                f.write("from cutplace import fields\n\nclass %sFieldFormat(fields.AbstractFieldFormat):\n"
                        "    def __init__(self, n, e, l, r, d):\n        super().__init__(n, e, l, r, d, empty_value='')\n"
                        "    def validated_value(self, value):\n        return value\n" % cls)
            interface.import_plugins(folder)
        for cls in ("FolderOne", "FolderTwo"):
            n += 1
            try:
                interface.create_cid_from_string("d,format,delimited\nf,x,,,,%s\n" % cls)
            except Exception as e:  # noqa
                failures.append(dict(key="plugin-import", what="class %sFieldFormat from a plugin folder is not resolved: %s: %s" % (
                    cls, type(e).__name__, str(e)[:120]), args=dict(cls=cls)))
    finally:
        if gc_was:
            gc.enable()
        shutil.rmtree(d)
    return dict(count=n, failures=failures, samples=[dict(query="native/class-resolution", cases=n)])


def build(tier, seed):
    queries = []
    conf = [
        # fkeys, ncheck, nrows, fmt, allowed_text, allowed, mode, runs, ragged
        (("A", "B"), 2, 2, "delimited", None, None, "yield", 1, None),
        (("A", "B"), 2, 2, "delimited", None, None, "raise", 1, None),
        (("A",), 1, 2, "delimited", "97...122", (97, 122), "yield", 2, None),
        (("A", "B"), 1, 1, "fixed", None, None, "yield", 1, None),
        (("B",), 1, 1, "fixed", "97...122", (97, 122), "yield", 1, None),
        (("A", "B"), 2, 2, "delimited", None, None, "writer", 1, None),
        (("A", "B"), 1, 2, "delimited", None, None, "continue", 1, [1, 3]),
        (("C",), 2, 3, "delimited", None, None, "yield", 1, None),
        (("A",), 2, 2, "delimited", None, None, "reader-twice", 1, None),
        (("A",), 1, 3, "delimited", None, None, "continue", 1, None),
        (("D", "B"), 1, 2, "delimited", None, None, "yield", 1, None),
        (("A", "B"), 1, 1, "delimited", "late:97...122", (97, 122), "yield", 1, None),
        (("A", "B"), 2, 2, "delimited", None, None, "with-raise", 1, None),
    ]
    if tier == "thorough":
        conf += [
            (("A", "B"), 2, 3, "delimited", None, None, "yield", 1, None),
            (("A", "B"), 2, 3, "delimited", None, None, "raise", 1, None),
            (("A", "B"), 2, 2, "delimited", "97...122", (97, 122), "yield", 2, None),
            (("A",), 2, 2, "fixed", "32...126", (32, 126), "yield", 1, None),
            (("A", "B", "C"), 1, 2, "delimited", None, None, "yield", 1, None),
            (("A", "B"), 2, 3, "delimited", None, None, "writer", 2, None),
            (("C",), 1, 4, "delimited", None, None, "continue", 1, None),
        ]
    for fkeys, ncheck, nrows, fmt, at, allowed, mode, runs, ragged in conf:
        mk, rp = make(fkeys, ncheck, nrows, fmt, at, allowed, mode, runs, ragged)
        qid = "C20/%s/checks=%d/rows=%d/%s%s/%s/runs=%d%s" % ("".join(fkeys), ncheck, nrows, fmt,
                                                             "+allowed" if at else "", mode, runs,
                                                             "/ragged" if ragged else "")
        queries.append(Query(qid, "protocol", mk,
                             "recording fields %r, %d recording checks, %d rows (widths %r), format %s, allowed "
                             "characters %r, %s, %d consecutive run(s) on one CID; symbolic: header 0..2, limit, cells "
                             "(len<=%d), per-row vetoes, end-of-data failures" % (
                                 fkeys, ncheck, nrows, ragged or "full", fmt, at, mode, runs, 3 if fmt == "fixed" else 2),
                             budget_s=600 if tier == "quick" else 2400, per_path_timeout=90, replay=rp, functions=FUNCS,
                             stubs=("S-ROWS", "S-FMT") + (("row writer replaced by a recorder",) if mode == "writer" else ())))
    return dict(queries=queries, warm=("strip",), native=native_resolution,
                assumptions=["'blank-stripping' in fixed-width data is str.strip() (all white space), as implemented"],
                outside_claim=["interface.import_plugins (importlib, file system)", "tables above the bounds"],
                exhaustive=False)


def replay_case(case):
    for tier in ("quick", "thorough"):
        for q in build(tier, 0)["queries"]:
            if q.qid == case.get("query"):
                rep, detail, _ = q.replay(case["args"])
                return rep, detail
    return False, "no such query"
