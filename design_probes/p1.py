from typing import List, Optional, Tuple
from cutplace import ranges, errors

def mk(items):
    r = ranges.Range.__new__(ranges.Range)
    r._description = "x"
    r._items = items
    r._lower_limit = None
    r._upper_limit = None
    return r

def oracle(items, v):
    for lo, hi in items:
        if (lo is None or lo <= v) and (hi is None or v <= hi):
            return True
    return False

def check_validate(items: List[Tuple[Optional[int], Optional[int]]], v: int) -> bool:
    """
    pre: len(items) <= 3
    pre: all(not (lo is None and hi is None) for lo, hi in items)
    post: _ == True
    """
    r = mk(items)
    try:
        r.validate("x", v)
        acc = True
    except errors.RangeValueError:
        acc = False
    return acc == oracle(items, v)
