import token
from cutplace import ranges, errors, _compat, _tools
from drv import assume
from crosshair.tracers import NoTracing
_compat.text_repr = lambda text: "<repr>"

E = ranges.ELLIPSIS
def tok(t, s): return (t, s, (1, 0), (1, 0), s)
END = tok(token.ENDMARKER, "")

class Env:
    def __init__(self): self.vals = {}
ENV = Env()

def stub_int(text, base=10):
    if isinstance(text, str) and text in ENV.vals:
        return ENV.vals[text]
    return int(text, base)

def run(tokens, vals):
    ENV.vals = vals
    old_tok, old_int = _tools.tokenize_without_space, ranges.__dict__.get("int")
    _tools.tokenize_without_space = lambda text: iter(tokens)
    ranges.int = stub_int
    try:
        return ranges.Range("stub")
    finally:
        _tools.tokenize_without_space = old_tok
        if old_int is None: del ranges.int
        else: ranges.int = old_int

N = lambda name: tok(token.NUMBER, name)
HY = tok(token.OP, "-"); CO = tok(token.OP, ","); EL = tok(token.ERRORTOKEN, E); CL = tok(token.OP, ":")

def h_two_items(a: int, b: int, c: int, v: int):
    # "-A…B, C:"   with A,B,C >= 0 as number tokens
    assume(a >= 0 and b >= 0 and c >= 0)
    toks = [HY, N("A"), EL, N("B"), CO, N("C"), CL, END]
    lo0, hi0, lo1 = -a, b, c
    assume(lo1 > hi0)   # disjoint
    try:
        r = run(toks, {"A": a, "B": b, "C": c}); ok = True
    except errors.InterfaceError:
        ok = False
    exp_ok = lo0 <= hi0
    if ok != exp_ok: return False
    if not ok: return True
    if r.items != [(lo0, hi0), (lo1, None)]: return False
    if r.lower_limit != lo0 or r.upper_limit is not None: return False
    try:
        r.validate("x", v); acc = True
    except errors.RangeValueError:
        acc = False
    return acc == ((lo0 <= v <= hi0) or v >= lo1)

def h_bad(a: int, b: int, c: int):
    assume(a >= 0 and b >= 0 and c >= 0)
    toks = [N("A"), EL, N("B"), EL, N("C"), END]   # a…b…c must be rejected
    try:
        run(toks, {"A": a, "B": b, "C": c}); return False
    except errors.InterfaceError:
        return True
