from cutplace import rowio, errors, interface, validio, _compat
from drv import assume
from crosshair.tracers import NoTracing
_compat.text_repr = lambda text: "<repr>"

class Stream:
    def __init__(self, text=""):
        self.text = text; self.pos = 0; self.chunks = []
    def read(self, n):
        r = self.text[self.pos:self.pos + n]; self.pos += len(r); return r
    def write(self, s):
        self.chunks.append(s)

CID_TEXT = """d,format,fixed
d,line delimiter,lf
f,k,,,2,Text
f,v,,X,1,Text
c,u,IsUnique,k
"""
def fresh():
    with NoTracing():
        return interface.create_cid_from_string(CID_TEXT)

def h(k0: str, v0: str, k1: str, v1: str):
    for c in (k0, k1): assume(len(c) <= 3)
    for c in (v0, v1): assume(len(c) <= 2)
    # keep keys free of blanks/newlines so that padding is the only whitespace (stated bound)
    for c in (k0, k1, v0, v1): assume(all(ch not in " \t\r\n\x0b\x0c\x1c\x1d\x1e\x1f\x85\xa0" for ch in c))
    rows = [[k0, v0], [k1, v1]]
    out = Stream()
    w = validio.Writer(fresh(), out)
    accepted = []
    for r in rows:
        try:
            w.write_row(r); accepted.append(r)
        except errors.DataError:
            pass
    w.close()
    exp_acc = []
    for r in rows:
        ok = 1 <= len(r[0]) <= 2 and len(r[1]) <= 1 and all(r[0] != a[0] for a in exp_acc)
        if ok: exp_acc.append(r)
    if accepted != exp_acc: return False
    text = "".join(out.chunks)
    exp_text = "".join(r[0].ljust(2) + r[1].ljust(1) + "\n" for r in exp_acc)
    if text != exp_text: return False
    back = list(validio.rows(fresh(), Stream(text)))
    return back == [[r[0].ljust(2), r[1].ljust(1)] for r in exp_acc]
