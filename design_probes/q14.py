import argparse
from cutplace import applications, errors, _compat, validio
from drv import assume
from crosshair.tracers import NoTracing
_compat.text_repr = lambda text: "<repr>"

STATE = {}
def fake_parse_args(self, args=None, namespace=None):
    return argparse.Namespace(is_create_sql=False, is_gui=False, log_level="info", plugins_folder=None,
                              validate_until=STATE["until"], cid_path="cid.csv", data_paths=list(STATE["paths"]))
def fake_error(self, message):
    raise SystemExit(2)
argparse.ArgumentParser.parse_args = fake_parse_args
argparse.ArgumentParser.error = fake_error

def fake_set_cid(self, path):
    if STATE["cid"] == 1: raise errors.InterfaceError("bad cid")
    if STATE["cid"] == 2: raise OSError("no cid")
    self.cid = object(); self.cid_path = path
applications.CutplaceApp.set_cid_from_path = fake_set_cid

class FakeReader:
    def __init__(self, cid, path, validate_until=None):
        self.o = STATE["outcomes"][path]; STATE["seen"].append((path, validate_until))
        self.accepted_rows_count = 0
    def __enter__(self): return self
    def __exit__(self, *a):
        if self.o == 2: raise errors.CheckError("at end")
    def validate_rows(self):
        if self.o == 1: raise errors.DataError("bad row")
        if self.o == 3: raise OSError("missing")
validio.Reader = FakeReader

def h(until: int, cid: int, o0: int, o1: int, o2: int, n: int):
    assume(0 <= cid <= 2 and 0 <= n <= 3)
    assume(0 <= o0 <= 3 and 0 <= o1 <= 3 and 0 <= o2 <= 3)
    paths = ["p0", "p1", "p2"][:n]
    outs = [o0, o1, o2][:n]
    STATE.update(until=until, cid=cid, paths=paths, outcomes=dict(zip(paths, outs)), seen=[])
    try:
        rc = applications.main(["cutplace", "x"])
    except SystemExit as e:
        rc = ("exit", e.code)
    if until < -1: return rc == ("exit", 2)
    if cid == 1: return rc == 1
    if cid == 2: return rc == 3
    exp_until = None if until == -1 else until
    if 3 in outs:
        k = outs.index(3)
        return rc == 3 and STATE["seen"] == [(p, exp_until) for p in paths[:k + 1]]
    exp = 1 if any(o in (1, 2) for o in outs) else 0
    return rc == exp and STATE["seen"] == [(p, exp_until) for p in paths]
