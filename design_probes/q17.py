from cutplace import rowio, errors, interface, validio, _compat
from drv import assume
from crosshair.tracers import NoTracing
_compat.text_repr = lambda text: "<repr>"

class Stream:
    def __init__(self, chunks=None):
        self.chunks = chunks or []; self.i = 0; self.off = 0
    def write(self, s):
        self.chunks.append(s)
    def read(self, n):
        # serve from the chunk list without concatenating everything
        out = ""
        while n > 0 and self.i < len(self.chunks):
            c = self.chunks[self.i]
            part = c[self.off:self.off + n]
            out += part; n -= len(part); self.off += len(part)
            if self.off >= len(c):
                self.i += 1; self.off = 0
        return out

CID_TEXT = """d,format,fixed
d,line delimiter,lf
f,k,,,2,Text
f,v,,X,1,Text
"""
def fresh():
    with NoTracing():
        return interface.create_cid_from_string(CID_TEXT)

def h(k0: str, v0: str, k1: str, v1: str):
    for c in (k0, k1): assume(len(c) <= 3)
    for c in (v0, v1): assume(len(c) <= 2)
    rows = [[k0, v0], [k1, v1]]
    out = Stream()
    w = validio.Writer(fresh(), out)
    accepted = []
    for r in rows:
        try:
            w.write_row(r); accepted.append(True)
        except errors.DataError:
            accepted.append(False)
    w.close()
    exp_chunks = []
    for r, a in zip(rows, accepted):
        ok = 1 <= len(r[0]) <= 2 and len(r[1]) <= 1
        if ok != a: return False
        if ok:
            exp_chunks.append((r[0], 2 - len(r[0]), r[1], 1 - len(r[1])))
    # written chunks: one row string + delimiter per accepted row
    if len(out.chunks) != 2 * len(exp_chunks): return False
    for i, (a, pa, b, pb) in enumerate(exp_chunks):
        s = out.chunks[2 * i]
        if len(s) != 3: return False
        if s[:len(a)] != a or s[len(a):2] != " " * pa: return False
        if s[2:2 + len(b)] != b or s[2 + len(b):] != " " * pb: return False
        if out.chunks[2 * i + 1] != "\n": return False
    return True
