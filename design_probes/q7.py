import keyword
from cutplace import interface, errors, _compat
from drv import assume
from crosshair.tracers import NoTracing
_compat.text_repr = lambda text: "<repr>"

def h_marker(m: str, e: str):
    """row marker cell m and empty-mark cell e symbolic"""
    assume(len(m) <= 2 and len(e) <= 2)
    assume(all(c in "dfcDFC qx" for c in m))
    assume(all(c in "xX q" for c in e))
    rows = [["d", "format", "delimited"], ["f", "a", "", "", "", "Text"], [m, "b", "", e, "", "Text"]]
    with NoTracing():
        cid = interface.Cid()
    try:
        cid.read("x", rows)
        ok = True
    except errors.InterfaceError as err:
        ok = False
        line = err.location.line
    mt = m.lower().strip()
    et = e.strip().lower()
    if mt == "":
        return ok and cid.field_names == ["a"]
    if mt == "f":
        if et in ("", "x"):
            return ok and cid.field_names == ["a", "b"] and cid.field_formats[1].is_allowed_to_be_empty == (et == "x")
        return (not ok) and line == 2
    return (not ok) and line == 2
