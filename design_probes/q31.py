from cutplace import errors, _compat, data, rowio, fields
from drv import assume
from crosshair.tracers import NoTracing
_compat.text_repr = lambda text: "<repr>"

def h_quote(v: str):
    with NoTracing():
        d = data.DataFormat("delimited")
    try:
        d.set_property("quote_character", v); ok = True
    except errors.InterfaceError:
        ok = False
    exp = len(v) == 1 and v in "!\"#$%&'*+-/:;=?\\^_`~"
    return ok == exp and (not ok or d.quote_character == v)

def h_linedelim(v: str):
    assume(len(v) <= 4)
    with NoTracing():
        d = data.DataFormat("fixed")
    try:
        d.set_property("line_delimiter", v); ok = True
    except errors.InterfaceError:
        ok = False
    l = v.lower()
    exp = l in ("any", "cr", "lf", "crlf", "none")
    return ok == exp

def h_applic(name: str):
    assume(name in ("sheet", "quote_character", "item_delimiter", "header", "encoding", "decimal_separator", "line_delimiter", "bogus", "format", "is_valid"))
    with NoTracing():
        d = data.DataFormat("ods")
    try:
        d.set_property(name, "1"); ok = True
    except errors.InterfaceError:
        ok = False
    return ok == (name in ("sheet", "header"))

# C16 sheet selection with fake xlrd
class Cell:
    def __init__(self, ctype, value): self.ctype = ctype; self.value = value
class Sheet:
    def __init__(self, rows): self.rows = rows; self.nrows = len(rows); self.ncols = max([len(r) for r in rows] + [0])
    def cell(self, y, x): return self.rows[y][x]
class Book:
    datemode = 0
    def __init__(self, sheets): self.sheets = sheets
    def sheet_by_index(self, i): return self.sheets[i]
    def __enter__(self): return self
    def __exit__(self, *a): return False
import xlrd
class FakeXlrd:
    XL_CELL_DATE = xlrd.XL_CELL_DATE; XL_CELL_ERROR = xlrd.XL_CELL_ERROR; XL_CELL_NUMBER = xlrd.XL_CELL_NUMBER
    XLRDError = xlrd.XLRDError; error_text_from_code = xlrd.error_text_from_code
    xldate_as_tuple = staticmethod(xlrd.xldate_as_tuple)
    book = None
    @staticmethod
    def open_workbook(path): return FakeXlrd.book
rowio.xlrd = FakeXlrd
def h_sheet(k: int, s: str):
    assume(1 <= k <= 3)
    FakeXlrd.book = Book([Sheet([[Cell(xlrd.XL_CELL_TEXT, "one")]]), Sheet([[Cell(xlrd.XL_CELL_TEXT, s)]]), Sheet([[Cell(xlrd.XL_CELL_BOOLEAN, 1)]])])
    got = list(rowio.excel_rows("x.xls", k))
    return got == [[["one"]], [[s]], [["1"]]][k - 1]
