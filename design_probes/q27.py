from cutplace import rowio, errors, interface, validio, _compat
from drv import assume
from crosshair.tracers import NoTracing
_compat.text_repr = lambda text: "<repr>"
CID_TEXT = """d,format,delimited
f,k,,,1:1,Text
f,v,,,1:1,Text
c,u,IsUnique,k
"""
REAL = rowio.delimited_rows
def stub(src, fmt):
    if isinstance(src, tuple):
        rows, fail_after = src
        def gen():
            for i, r in enumerate(rows):
                if i == fail_after:
                    raise errors.DataFormatError("container broken")
                yield r
            if fail_after == len(rows):
                raise errors.DataFormatError("container broken")
        return gen()
    return REAL(src, fmt)
rowio.delimited_rows = stub
def fresh():
    with NoTracing():
        return interface.create_cid_from_string(CID_TEXT)

def run(rows, fail_after, mode, header):
    cid = fresh(); cid.data_format._header = header
    rd = validio.Reader(cid, (rows, fail_after), on_error=mode)
    out = []; end = None
    try:
        for r in rd.rows():
            out.append(("err", r.location.line, r.location.cell, type(r).__name__) if isinstance(r, errors.DataError) else ("row", r))
    except errors.DataFormatError:
        end = "format"
    except errors.DataError as e:
        end = ("raised", e.location.line, e.location.cell, type(e).__name__)
    return out, end, rd.accepted_rows_count, rd.rejected_rows_count

def h(header: int, fa: int, k0: str, v0: str, k1: str, v1: str, k2: str, v2: str):
    assume(0 <= header <= 2 and -1 <= fa <= 3)
    for k in (k0, k1, k2): assume(k in ("a", "b"))
    for v in (v0, v1, v2): assume(len(v) <= 2)
    rows = [[k0, v0], [k1, v1], [k2, v2]]
    y, ye, ya, yr = run(rows, fa, "yield", header)
    c, ce, ca, cr = run(rows, fa, "continue", header)
    r, re_, ra, rr = run(rows, fa, "raise", header)
    if c != [x for x in y if x[0] == "row"] or ce != ye: return False
    errs = [i for i, x in enumerate(y) if x[0] == "err"]
    if errs:
        i = errs[0]
        if r != y[:i] or re_ != ("raised",) + y[i][1:]: return False
    else:
        if r != y or re_ != ye: return False
    if fa == -1 or fa > 3:
        pass
    nrows_delivered = 3 if (fa < 0) else min(fa, 3)
    ndata = max(0, nrows_delivered - header)
    if ya + yr != ndata: return False
    if (ye == "format") != (0 <= fa <= 3): return False
    return True
