"""CrossHair plugin: opaque message formatting (no realization / forking on symbolic operands)."""
def _install():
    from crosshair import core, opcode_intercept
    from crosshair.tracers import NoTracing, ResumedTracing
    from crosshair.libimpl.builtinslib import AnySymbolicStr, SymbolicInt, SymbolicBool, SymbolicFloat

    class _Opaque:
        def __init__(self, s): self.s = s
        def __str__(self): return self.s
        __repr__ = __str__

    def _placeholder(x):
        if isinstance(x, SymbolicBool): return False
        if isinstance(x, SymbolicInt): return 0
        if isinstance(x, AnySymbolicStr): return "<sym>"
        if isinstance(x, SymbolicFloat): return 0.0
        if x is None or type(x) in (int, str, float, bool, bytes): return x
        if type(x) is tuple: return tuple(_placeholder(i) for i in x)
        if type(x) is list: return [_placeholder(i) for i in x]
        if type(x) is dict: return {k: _placeholder(v) for k, v in x.items()}
        return _Opaque("<%s>" % type(x).__name__)

    def _opaque_percent(self, other):
        with NoTracing():
            if not isinstance(self, str):
                raise TypeError
            if isinstance(self, AnySymbolicStr):
                return "<symfmt>"
            return str.__mod__(self, _placeholder(other))

    core._PATCH_REGISTRATIONS[str.__mod__] = _opaque_percent

    SYM = (SymbolicInt, SymbolicBool, SymbolicFloat, AnySymbolicStr)
    F = opcode_intercept.FormatStashingValue
    o_str, o_fmt, o_repr = F.__str__, F.__format__, F.__repr__
    def f_str(self):
        with NoTracing():
            if isinstance(self.value, SYM):
                self.formatted = str(_placeholder(self.value)); return ""
        return o_str(self)
    def f_fmt(self, fmt):
        with NoTracing():
            if isinstance(self.value, SYM):
                self.formatted = format(_placeholder(self.value), fmt); return ""
        return o_fmt(self, fmt)
    def f_repr(self):
        with NoTracing():
            if isinstance(self.value, SYM):
                self.formatted = repr(_placeholder(self.value)); return ""
        return o_repr(self)
    F.__str__, F.__format__, F.__repr__ = f_str, f_fmt, f_repr
_install()
