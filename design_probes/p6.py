from cutplace import checks, errors

LOC = errors.Location("x.csv", has_cell=True)

def check_unique(a: str, b: str, c: str) -> bool:
    """
    pre: len(a) <= 1 and len(b) <= 1 and len(c) <= 1
    post: _ == True
    """
    chk = checks.IsUniqueCheck("u", "k", ["k", "v"])
    chk.reset()
    seen = []
    ok = True
    for i, key in enumerate([a, b, c]):
        loc = errors.Location("x.csv", has_cell=True)
        loc.advance_line(i + 1)
        try:
            chk.check_row({"k": key, "v": "z"}, loc)
            rejected = False
        except errors.CheckError as e:
            rejected = True
            first = [j for j, k in enumerate(seen) if k == key][0]
            ok = ok and e.see_also_location.line == first + 1 and e.location.line == i + 1
        exp = key in seen
        ok = ok and (rejected == exp)
        if not rejected:
            seen.append(key)
        else:
            seen.append(None)
    return ok
