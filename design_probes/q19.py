import decimal
from cutplace import errors, _compat, fields, data
from drv import assume
from crosshair.tracers import NoTracing
_compat.text_repr = lambda text: "<repr>"

class IntEnv:
    fail = False; value = 0; seen = None
def stub_int(text, *a):
    if a: raise AssertionError("unexpected base")
    IntEnv.seen = text
    if IntEnv.fail: raise ValueError("no int")
    return IntEnv.value
fields.int = stub_int

def mk(fmt):
    d = data.DataFormat(fmt); d.validate(); return d
F_DEL = fields.IntegerFieldFormat("i", False, "", "-5:12, 100:", mk("delimited"))
F_FIX = fields.IntegerFieldFormat("i", False, "4", "-5:12, 100:999", mk("fixed"))

def h_del(v: str, fail: bool, n: int):
    assume(v != "")
    IntEnv.fail, IntEnv.value, IntEnv.seen = fail, n, None
    try:
        r = F_DEL.validated(v); ok = True
    except errors.FieldValueError:
        ok = False
    exp = (not fail) and ((-5 <= n <= 12) or n >= 100)
    return ok == exp and IntEnv.seen == v and (not ok or (r == n))

def h_fix(core: str, pad: int, fail: bool, n: int):
    assume(0 <= pad <= 3 and 1 <= len(core) <= 4 - pad)
    assume(core[0] != " " and core[-1] != " ")   # core has no outer blanks
    assume(all(not c.isspace() or c == " " for c in core))
    v = core + " " * pad
    IntEnv.fail, IntEnv.value, IntEnv.seen = fail, n, None
    try:
        r = F_FIX.validated(v); ok = True
    except errors.FieldValueError:
        ok = False
    exp = (not fail) and ((-5 <= n <= 12) or 100 <= n <= 999)
    return ok == exp and IntEnv.seen == core and (not ok or (r == n))

# C03-style guard for Decimal type (length replaced by DecimalRange) with recorder
D = mk("delimited")
F_DEC = fields.DecimalFieldFormat("d", True, "2:3", "", D)
CALLS = []
_orig = F_DEC.validated_value
def rec(value):
    CALLS.append(value); return decimal.Decimal(1)
F_DEC.validated_value = rec
def h_dec_guard(v: str):
    assume(len(v) <= 4)
    del CALLS[:]
    try:
        r = F_DEC.validated(v); ok = True
    except errors.FieldValueError:
        ok = False
    if v == "":
        return ok and r is None and CALLS == []
    exp = 2 <= len(v) <= 3
    return ok == exp and CALLS == ([v] if exp else [])
