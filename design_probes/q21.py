from drv import assume
def mk(lo, hi):
    def h(c: str):
        assume(len(c) == 1)
        assume(lo <= ord(c) <= hi)
        return (c + " ").strip() == ("" if c.isspace() else c)
    return h
a = mk(0, 8); b = mk(9, 13); c_ = mk(14, 27); d = mk(28, 31); e = mk(32, 126); f = mk(127, 160); g = mk(161, 0x2000-1); h_ = mk(0x2000, 0x3000); i = mk(0x3001, 0x10ffff)
def k(c: str):
    assume(len(c) == 1)
    assume(1 <= ord(c) <= 8)
    return (c + " ").strip() == c
def k2(c: str):
    assume(len(c) == 1)
    assume(1 <= ord(c) <= 8)
    return not c.isspace()
