def f1(c: str) -> bool:
    """
    pre: len(c) == 1 and 33 <= ord(c) <= 126
    post: _
    """
    return (c + " ").strip() == c

def f2(c: str) -> bool:
    """
    pre: len(c) == 1 and 33 <= ord(c) <= 126
    post: _
    """
    return len((c + " ").strip()) == 1

def f3(c: str) -> bool:
    """
    pre: len(c) == 1 and 33 <= ord(c) <= 126
    post: _
    """
    return (c + " ").rstrip() == c

def f4(c: str) -> bool:
    """
    pre: len(c) == 2 and 33 <= ord(c[0]) <= 126 and c[1] == " "
    post: _
    """
    return c.strip() == c[0]
