import keyword, string
from cutplace import interface, errors, _compat, fields, data, sql, ranges
from drv import assume
from crosshair.tracers import NoTracing
_compat.text_repr = lambda text: "<repr>"

def h_fname(n: str):
    assume(len(n) <= 3)
    try:
        r = fields.validated_field_name(n)
        ok = True
    except errors.InterfaceError:
        ok = False
    s = n.strip()
    letters = string.ascii_letters
    exp = s != "" and s[0] in letters and all(c in letters + string.digits + "_" for c in s) and s not in keyword.kwlist
    return ok == exp and (not ok or r == s)

def h_dfvalid(item: str, quote: str, esc_is_quote: bool, ld: int, dec: int, tho: int):
    assume(len(item) == 1 and len(quote) == 1)
    assume(0 <= ld <= 3 and 0 <= dec <= 1 and 0 <= tho <= 2)
    with NoTracing():
        d = data.DataFormat("delimited")
    d._item_delimiter = item
    d._quote_character = quote
    d._escape_character = quote if esc_is_quote else "\\"
    d._line_delimiter = ["any", "\n", "\r", "\r\n"][ld]
    d._decimal_separator = [".", ","][dec]
    d._thousands_separator = [",", ".", ""][tho]
    try:
        d.validate(); ok = True
    except errors.InterfaceError:
        ok = False
    exp = not (d._decimal_separator == d._thousands_separator or item == quote or item == d._line_delimiter or quote == d._line_delimiter
               or d._escape_character == d._line_delimiter)
    return ok == exp and d.is_valid == ok

class FakeInt:
    is_allowed_to_be_empty = False
    empty_value = None
    field_name = "x"
    def __init__(self, lo, hi):
        r = ranges.Range.__new__(ranges.Range)
        r._description = "x"; r._items = [(lo, hi)]; r._lower_limit = lo; r._upper_limit = hi
        self.valid_range = r
    sql_ansi_type = fields.IntegerFieldFormat.sql_ansi_type

CAP = {"tinyint": (0, 255), "smallint": (-2**15, 2**15 - 1), "int": (-2**31, 2**31 - 1), "integer": (-2**31, 2**31 - 1), "bigint": (-2**63, 2**63 - 1)}

def mk_sql(dialect):
    def h(lo: int, hi: int):
        assume(lo <= hi)
        f = FakeInt(lo, hi)
        t = dialect.sql_type(f.sql_ansi_type() + (None,))
        name = t[0]
        if name in CAP:
            clo, chi = CAP[name]
            return clo <= lo and hi <= chi
        return True  # decimal/number: judged separately
    return h
h_sql_t = mk_sql(sql.TRANSACT_SQL_DIALECT)
h_sql_d = mk_sql(sql.DB2_SQL_DIALECT)
h_sql_a = mk_sql(sql.ANSI_SQL_DIALECT)
h_sql_p = mk_sql(sql.PL_SQL_DIALECT)
