from cutplace import ranges, errors

def mk(items):
    r = ranges.Range.__new__(ranges.Range)
    r._description = "x"
    r._items = items
    r._lower_limit = None
    r._upper_limit = None
    return r

def item(k, a, b):
    if k == 0:
        return (a, b)
    if k == 1:
        return (None, b)
    return (a, None)

def oracle(items, v):
    for lo, hi in items:
        if (lo is None or lo <= v) and (hi is None or v <= hi):
            return True
    return False

def check_validate(n: int, k0: int, a0: int, b0: int, k1: int, a1: int, b1: int, k2: int, a2: int, b2: int, v: int) -> bool:
    """
    pre: 0 <= n <= 3
    pre: 0 <= k0 <= 2 and 0 <= k1 <= 2 and 0 <= k2 <= 2
    post: _ == True
    """
    items = [item(k0, a0, b0), item(k1, a1, b1), item(k2, a2, b2)][:n]
    r = mk(items)
    try:
        r.validate("x", v)
        acc = True
    except errors.RangeValueError:
        acc = False
    return acc == oracle(items, v)
