from drv import assume
from crosshair.tracers import NoTracing
from crosshair.core import deep_realize
def h(c: str):
    assume(len(c) == 1 and 33 <= ord(c) <= 126)
    w = (c + "x")[:-1]
    with NoTracing():
        print("repr cp:", type(w._codepoints).__name__, type(c._codepoints).__name__)
    pts = w._codepoints
    with NoTracing():
        print(" inner:", type(pts).__name__, getattr(pts, '__dict__', None) and {k: type(v).__name__ for k, v in pts.__dict__.items()})
    a = list(pts); b = list(c._codepoints)
    with NoTracing():
        print(" elems:", [type(x).__name__ for x in a], [type(x).__name__ for x in b], a[0] is b[0])
    e = a[0] != b[0]
    with NoTracing():
        print(" ne type:", type(e).__name__, e if isinstance(e, bool) else e.var)
    return True
