"""Prototype in-process CrossHair driver: exhaustive path exploration with verdict."""
import inspect, sys, time
from time import process_time
from crosshair.core import (Patched, gen_args, deep_realize, realize, ExceptionFilter, proxy_for_type)
from crosshair.core_and_libs import NoTracing, ResumedTracing, standalone_statespace  # loads lib registrations
from crosshair.statespace import (StateSpace, RootNode, StateSpaceContext, CallAnalysis, VerificationStatus)
from crosshair.util import (
                                  IgnoreAttempt, UnexploredPath, NotDeterministic)
from crosshair.tracers import COMPOSITE_TRACER
from crosshair.copyext import deepcopyext, CopyMode
from crosshair.condition_parser import condition_parser
from crosshair.options import AnalysisKind
import chplug  # opaque formatting

class Assume(Exception):
    pass

def assume(c):
    if not c:
        raise IgnoreAttempt("assume")

def decide(fn, timeout_s=60.0, per_path_timeout=10.0, max_paths=10**9):
    sig = inspect.signature(fn)
    root = RootNode()
    t0 = process_time()
    paths = confirmed = ignored = unknown = 0
    cex = None
    exhausted = False
    while paths < max_paths:
        if process_time() - t0 > timeout_s:
            break
        paths += 1
        start = process_time()
        space = StateSpace(execution_deadline=start + per_path_timeout,
                           model_check_timeout=per_path_timeout / 2, search_root=root)
        status = None
        with condition_parser([AnalysisKind.PEP316]), Patched(), COMPOSITE_TRACER, NoTracing(), StateSpaceContext(space):
            try:
                pre_args = gen_args(sig)
                args = deepcopyext(pre_args, CopyMode.REGULAR, {})
                ret = None
                with ExceptionFilter() as ef, ResumedTracing():
                    ret = fn(*args.args, **args.kwargs)
                    ret = bool(ret)
                if ef.ignore:
                    status = ef.analysis.verification_status  # None (ignore) or UNKNOWN
                    if status is None: ignored += 1
                    else: unknown += 1
                elif ef.user_exc is not None:
                    exc, tb = ef.user_exc
                    with ResumedTracing():
                        space.detach_path(exc)
                        cex = ({k: deep_realize(v) for k, v in pre_args.arguments.items()}, "exception %s: %s" % (type(exc).__name__, exc))
                    status = VerificationStatus.REFUTED
                elif ret:
                    status = VerificationStatus.CONFIRMED; confirmed += 1
                else:
                    with ResumedTracing():
                        space.detach_path()
                        cex = ({k: deep_realize(v) for k, v in pre_args.arguments.items()}, "returned False")
                    status = VerificationStatus.REFUTED
            except IgnoreAttempt:
                status = None; ignored += 1
            except UnexploredPath:
                status = VerificationStatus.UNKNOWN; unknown += 1
            _a, exhausted = space.bubble_status(CallAnalysis(status))
        if cex is not None or exhausted:
            break
    verdict = "refuted" if cex else ("confirmed" if exhausted and unknown == 0 and confirmed > 0 else ("vacuous" if exhausted and confirmed == 0 and unknown == 0 else "unknown"))
    return dict(verdict=verdict, paths=paths, confirmed=confirmed, ignored=ignored, unknown=unknown,
                exhausted=exhausted, cex=cex, cpu_s=round(process_time() - t0, 2))

if __name__ == "__main__":
    import importlib
    mod = importlib.import_module(sys.argv[1])
    for name in sys.argv[2:]:
        print(name, decide(getattr(mod, name), timeout_s=float(120)))
