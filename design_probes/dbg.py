import sys, importlib
from crosshair.util import set_debug
import drv
set_debug(True)
mod = importlib.import_module(sys.argv[1])
print(drv.decide(getattr(mod, sys.argv[2]), timeout_s=float(sys.argv[3])))
