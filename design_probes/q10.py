import decimal
from cutplace import errors, _compat, ranges
from drv import assume
_compat.text_repr = lambda text: "<repr>"
R = ranges.DecimalRange("-1.5:20.25, 30:")

def h_decr(k: int):
    assume(-100000 < k < 100000)
    x = decimal.Decimal(k).scaleb(-2)
    try:
        R.validate("x", x); ok = True
    except errors.RangeValueError:
        ok = False
    exp = (-150 <= k <= 2025) or k >= 3000
    return ok == exp
