from cutplace import fields, data, errors, ranges

def mkfmt(fmt="delimited", allowed=None):
    d = data.DataFormat(fmt)
    d.validate()
    return d

D1 = mkfmt("delimited")
F_INT = fields.IntegerFieldFormat("i", False, "", "-5:12, 100:", D1)

def check_int_value(n: int) -> bool:
    """
    post: _ == True
    """
    s = str(n)
    exp_ok = (-5 <= n <= 12) or n >= 100
    try:
        r = F_INT.validated_value(s)
        ok = True
    except errors.FieldValueError:
        ok = False
    return ok == exp_ok and (not ok or r == n)

def check_int_text(v: str) -> bool:
    """
    pre: 1 <= len(v) <= 3
    post: _ == True
    """
    try:
        n = int(v)
    except ValueError:
        n = None
    exp_ok = n is not None and ((-5 <= n <= 12) or n >= 100)
    try:
        r = F_INT.validated_value(v)
        ok = True
    except errors.FieldValueError:
        ok = False
    return ok == exp_ok and (not ok or r == n)
