from q2 import *
from cutplace import _compat
_compat.text_repr = lambda text: "<repr>"
g_any_21_7 = mk2([2, 1], "any", 7)
g_any_21_9 = mk2([2, 1], "any", 9)
g_any_1_6 = mk2([1], "any", 6)
