from cutplace import ranges, errors
from drv import assume

def mk(items):
    r = ranges.Range.__new__(ranges.Range)
    r._description = "x"; r._items = items; r._lower_limit = None; r._upper_limit = None
    return r

def item(k, a, b):
    return (a, b) if k == 0 else ((None, b) if k == 1 else (a, None))

def oracle(items, v):
    return any((lo is None or lo <= v) and (hi is None or v <= hi) for lo, hi in items)

def h(n: int, k0: int, a0: int, b0: int, k1: int, a1: int, b1: int, v: int):
    assume(0 <= n <= 2 and 0 <= k0 <= 2 and 0 <= k1 <= 2)
    items = [item(k0, a0, b0), item(k1, a1, b1)][:n]
    r = mk(items)
    try:
        r.validate("x", v); acc = True
    except errors.RangeValueError:
        acc = False
    return acc == oracle(items, v)
