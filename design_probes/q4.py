import io
from cutplace import rowio, errors, interface, validio, _compat, data
from drv import assume
_compat.text_repr = lambda text: "<repr>"

CID_TEXT = """d,format,delimited
f,a,,,1:1,Text
f,b,,,1:1,Text
"""
CID = interface.create_cid_from_string(CID_TEXT)
rowio.delimited_rows = lambda source, data_format: iter(source)

def cell_ok(c):
    return len(c) == 1

def oracle(rows, header, limit):
    """list of ('row', row) / ('err', line, cell)"""
    out = []
    for i, row in enumerate(rows, 1):
        if i <= header:
            continue
        if limit is None or i <= limit:
            bad = None
            if len(row) != 2:
                bad = 0
            else:
                for j, c in enumerate(row):
                    if not cell_ok(c):
                        bad = j; break
            if bad is not None:
                out.append(("err", i - 1, bad)); continue
        out.append(("row", row))
    return out

def mk(nrows):
    def h(header: int, has_limit: bool, limit: int, c00: str, c01: str, c10: str, c11: str, c20: str, c21: str):
        assume(0 <= header <= 3)
        assume(0 <= limit <= 4)
        for c in (c00, c01, c10, c11, c20, c21):
            assume(len(c) <= 2)
        rows = [[c00, c01], [c10, c11], [c20, c21]][:nrows]
        CID.data_format._header = header
        lim = limit if has_limit else None
        got = []
        for r in validio.rows(CID, rows, on_error="yield", validate_until=lim):
            if isinstance(r, errors.DataError):
                got.append(("err", r.location.line, r.location.cell))
            else:
                got.append(("row", r))
        return got == oracle(rows, header, lim)
    return h
h3 = mk(3)
h2 = mk(2)
