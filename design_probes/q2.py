from cutplace import rowio, errors
from drv import assume

class Stream:
    """text stream stub: read(n) returns the next (up to) n characters"""
    def __init__(self, text):
        self.text = text; self.pos = 0
    def read(self, n):
        r = self.text[self.pos:self.pos + n]
        self.pos += len(r)
        return r

def spec_parse(text, widths, delim):
    """independent reference: returns list of rows or None if not in the language"""
    W = sum(widths)
    rows = []
    pos = 0
    n = len(text)
    if n == 0:
        return []
    while True:
        if n - pos < W:
            return None
        rec = text[pos:pos + W]; pos += W
        row = []; o = 0
        for w in widths:
            row.append(rec[o:o + w]); o += w
        rows.append(row)
        if delim is None:
            if pos == n:
                return rows
            continue
        if pos == n:
            return rows  # final delimiter optional
        # need a delimiter
        if delim == "any":
            if text[pos] == "\r":
                if pos + 1 < n and text[pos + 1] == "\n":
                    pos += 2
                else:
                    pos += 1
            elif text[pos] == "\n":
                pos += 1
            else:
                return None
        else:
            if text[pos:pos + len(delim)] != delim:
                return None
            pos += len(delim)
        if pos == n:
            return rows

def mk(widths, delim):
    def h(text: str):
        assume(len(text) <= 5)
        assume(all(c in "ab\r\n" for c in text))
        fl = [("f%d" % i, w) for i, w in enumerate(widths)]
        try:
            got = list(rowio.fixed_rows(Stream(text), "ascii", fl, delim))
        except errors.DataFormatError:
            got = None
        exp = spec_parse(text, widths, delim)
        return got == exp
    return h

h_any_2 = mk([2], "any")
h_any_11 = mk([1, 1], "any")
h_lf_2 = mk([2], "\n")
h_crlf_1 = mk([1], "\r\n")
h_none_2 = mk([2], None)

def mk2(widths, delim, maxlen):
    def h(text: str):
        assume(len(text) <= maxlen)
        fl = [("f%d" % i, w) for i, w in enumerate(widths)]
        try:
            got = list(rowio.fixed_rows(Stream(text), "ascii", fl, delim))
        except errors.DataFormatError:
            got = None
        exp = spec_parse(text, widths, delim)
        return got == exp
    return h
g_any_21_9 = mk2([2, 1], "any", 9)
g_any_1_8 = mk2([1], "any", 8)
g_crlf_12_12 = mk2([1, 2], "\r\n", 12)
