from drv import assume
from crosshair.core import deep_realize
from crosshair.tracers import NoTracing
def h(c: str):
    assume(len(c) == 1 and 33 <= ord(c) <= 126)
    s = c + " "
    t = s.rstrip()
    e = (t == c)
    with NoTracing():
        print("types", type(s).__name__, type(t).__name__, type(e).__name__)
    r = bool(e)
    with NoTracing():
        print("c,t,eq:", repr(deep_realize(c)), repr(deep_realize(t)), r)
    return r
