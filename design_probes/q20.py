from drv import assume
def h1(c: str):
    assume(len(c) == 1)
    assume(c == "\x00")
    return (c + " ").strip() == "\x00"
def h2(c: str):
    assume(len(c) == 1)
    assume(c == "\x00")
    return not c.isspace()
def h3(c: str):
    assume(len(c) == 1)
    return (c + " ").strip() == ("" if c.isspace() else c)
def h4(c: str):
    assume(len(c) == 1)
    import unicodedata
    return True
