from cutplace import ranges, errors

def mk(items):
    r = ranges.Range.__new__(ranges.Range)
    r._description = "x"
    r._items = items
    r._lower_limit = None
    r._upper_limit = None
    return r

def oracle(items, v):
    for lo, hi in items:
        if (lo is None or lo <= v) and (hi is None or v <= hi):
            return True
    return False

def check_validate(a0: int, b0: int, b1: int, a2: int, v: int) -> bool:
    """
    post: _ == True
    """
    items = [(a0, b0), (None, b1), (a2, None)]
    r = mk(items)
    try:
        r.validate("x", v)
        acc = True
    except errors.RangeValueError:
        acc = False
    return acc == oracle(items, v)
