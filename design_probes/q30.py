from cutplace import ranges, errors, _compat, rowio
from drv import assume
import q2
_compat.text_repr = lambda text: "<repr>"

def mk(items):
    r = ranges.Range.__new__(ranges.Range)
    r._description = "x"; r._items = items; r._lower_limit = None; r._upper_limit = None
    return r
def item(k, a, b):
    return (a, b) if k == 0 else ((None, b) if k == 1 else (a, None))
def oracle(items, v):
    return any((lo is None or lo <= v) and (hi is None or v <= hi) for lo, hi in items)

def h4(n: int, k0: int, a0: int, b0: int, k1: int, a1: int, b1: int, k2: int, a2: int, b2: int, k3: int, a3: int, b3: int, v: int):
    assume(0 <= n <= 4 and 0 <= k0 <= 2 and 0 <= k1 <= 2 and 0 <= k2 <= 2 and 0 <= k3 <= 2)
    items = [item(k0, a0, b0), item(k1, a1, b1), item(k2, a2, b2), item(k3, a3, b3)][:n]
    r = mk(items)
    try:
        r.validate("x", v); acc = True
    except errors.RangeValueError:
        acc = False
    return acc == oracle(items, v)

f12_any_21 = q2.mk2([2, 1], "any", 12)
f12_any_1 = q2.mk2([1], "any", 12)
f12_crlf_111 = q2.mk2([1, 1, 1], "\r\n", 12)
f12_none_3 = q2.mk2([3], None, 12)
