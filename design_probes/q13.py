import io
from xml.etree import ElementTree as RealET
from cutplace import rowio, errors, _compat
from drv import assume
from crosshair.tracers import NoTracing
_compat.text_repr = lambda text: "<repr>"

NS = rowio._OOO_NAMESPACES
HEAD = '<office:document-content xmlns:office="%s" xmlns:table="%s" xmlns:text="%s"><office:body><office:spreadsheet>' % (NS["office"], NS["table"], NS["text"])
TAIL = '</office:spreadsheet></office:body></office:document-content>'
DOC = HEAD + '<table:table table:name="s1"><table:table-row><table:table-cell table:number-columns-repeated="R0"><text:p>T0</text:p></table:table-cell><table:table-cell><text:p>T1</text:p></table:table-cell></table:table-row></table:table>' \
           + '<table:table table:name="s2"><table:table-row><table:table-cell><text:p>Z</text:p></table:table-cell></table:table-row></table:table>' + TAIL

class FakeZip:
    def __init__(self, *a, **k): pass
    def read(self, name): return b"x"
    def close(self): pass
class FakeZipMod:
    ZipFile = FakeZip
class FakeET:
    tree = None
    @staticmethod
    def parse(stream): return FakeET.tree
rowio.zipfile = FakeZipMod
rowio.ElementTree = FakeET

def build(r0, t0, t1):
    with NoTracing():
        tree = RealET.parse(io.BytesIO(DOC.encode("utf-8")))
        cells = list(tree.getroot().iter("{%s}table-cell" % NS["table"]))
    cells[0].attrib[rowio._NUMBER_COLUMNS_REPEATED] = r0
    cells[0][0].text = t0
    cells[1][0].text = t1
    return tree

def h(sheet: int, r0: str, t0: str, t1: str):
    assume(1 <= sheet <= 3)
    assume(len(r0) <= 2 and len(t0) <= 2 and len(t1) <= 2)
    assume(all(c in "0123-x " for c in r0))
    FakeET.tree = build(r0, t0, t1)
    try:
        got = list(rowio.ods_rows("x.ods", sheet))
    except errors.DataFormatError:
        got = None
    # oracle
    try:
        n = int(r0)
    except ValueError:
        n = None
    if sheet == 3: exp = None
    elif sheet == 2: exp = [["Z"]]
    elif n is None or n < 1: exp = None
    else: exp = [[t0] * n + [t1]]
    return got == exp
