from drv import assume
from crosshair import simplestructs
def _eq(self, other):
    try:
        n = self.__len__(); m = other.__len__()
    except Exception:
        return False
    if n != m:
        return False
    for a, b in zip(self, other):
        if a is b:
            continue
        if a != b:
            return False
    return True
simplestructs.SequenceConcatenation.__eq__ = _eq

def h1(c: str):
    assume(len(c) == 1 and 33 <= ord(c) <= 126)
    return (c + " ").rstrip() == c
def h2(c: str):
    assume(len(c) == 1 and 33 <= ord(c) <= 126)
    return (c + "x")[:-1] == c and str((c + " ").strip()) == c and c == (c + " ").strip()
def h3(c: str, d: str):
    assume(len(c) == 1 and len(d) == 1)
    return ((c + " ").rstrip() == d) == (c == d) or c.isspace()
