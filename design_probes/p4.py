from cutplace import fields, data, errors, ranges

def mkfmt(fmt="delimited", allowed=None):
    d = data.DataFormat(fmt)
    if allowed:
        d.set_property(data.KEY_ALLOWED_CHARACTERS, allowed)
    d.validate()
    return d

D1 = mkfmt("delimited", "97:122")
F_TEXT = fields.TextFieldFormat("t", False, "2:3", "", D1)
F_TEXT_E = fields.TextFieldFormat("t", True, "2:3", "", D1)

def check_text_guard(v: str) -> bool:
    """
    pre: len(v) <= 4
    post: _ == True
    """
    exp_ok = (v != "") and all(97 <= ord(c) <= 122 for c in v) and (2 <= len(v) <= 3)
    try:
        r = F_TEXT.validated(v)
        ok = True
    except errors.FieldValueError:
        ok = False
    return ok == exp_ok and (not ok or r == v)

def check_text_guard_e(v: str) -> bool:
    """
    pre: len(v) <= 4
    post: _ == True
    """
    exp_ok = (v == "") or (all(97 <= ord(c) <= 122 for c in v) and (2 <= len(v) <= 3))
    try:
        r = F_TEXT_E.validated(v)
        ok = True
    except errors.FieldValueError:
        ok = False
    return ok == exp_ok and (not ok or r == v)
