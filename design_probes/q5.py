import re, fnmatch
from cutplace import fields, data, errors, _compat
from drv import assume
_compat.text_repr = lambda text: "<repr>"
D = data.DataFormat("delimited"); D.validate()
F_CHOICE = fields.ChoiceFieldFormat("c", False, "", "red, green,\"blue\"", D)
F_PAT = fields.PatternFieldFormat("p", False, "", "a?c*", D)
F_RE = fields.RegExFieldFormat("r", False, "", "a[0-9]+b", D)

def acc(f, v):
    try:
        r = f.validated(v)
        return r == v
    except errors.FieldValueError:
        return None

def h_choice(v: str):
    exp = v in ("red", "green", "blue")
    got = acc(F_CHOICE, v)
    return (got is True) == exp and got is not False

def h_pat(v: str):
    assume(len(v) <= 5)
    # oracle: glob a?c* on whole value, ignoring case
    l = v.lower()
    exp = len(l) >= 3 and l[0] == "a" and l[2] == "c"
    got = acc(F_PAT, v)
    return (got is True) == exp and got is not False

def h_re(v: str):
    assume(len(v) <= 4)
    assume(v != "")
    l = v
    # oracle: starts with a|A, then >=1 digits, then b|B (prefix match)
    exp = False
    if len(l) >= 3 and l[0] in "aA":
        i = 1
        while i < len(l) and l[i] in "0123456789":
            i += 1
        exp = i > 1 and i < len(l) and l[i] in "bB"
    got = acc(F_RE, v)
    return (got is True) == exp and got is not False

def h_pat2(v: str):
    assume(len(v) <= 5)
    exp = len(v) >= 3 and v[0] in "aA" and v[2] in "cC"
    got = acc(F_PAT, v)
    return (got is True) == exp and got is not False
