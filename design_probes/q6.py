import keyword
from cutplace import interface, errors, _compat
from drv import assume
_compat.text_repr = lambda text: "<repr>"

def h_marker(m: str, e: str):
    """row marker cell m and empty-mark cell e symbolic"""
    assume(len(m) <= 2 and len(e) <= 2)
    rows = [["d", "format", "delimited"], ["f", "a", "", "", "", "Text"], [m, "b", "", e, "", "Text"]]
    cid = interface.Cid()
    try:
        cid.read("x", rows)
        ok = True
    except errors.InterfaceError as err:
        ok = False
        line = err.location.line
    mt = m.lower().strip()
    et = e.strip().lower()
    if mt == "":
        return ok and cid.field_names == ["a"]
    if mt == "f":
        if et in ("", "x"):
            return ok and cid.field_names == ["a", "b"] and cid.field_formats[1].is_allowed_to_be_empty == (et == "x")
        return (not ok) and line == 2
    if mt == "d":
        return (not ok) and line == 2   # 'b' is not a property
    if mt == "c":
        return (not ok) and line == 2   # check type '' unknown
    return (not ok) and line == 2

def h_name(n: str):
    assume(len(n) <= 3)
    assume(all(c in "aZ_1 -é" for c in n))
    rows = [["d", "format", "delimited"], ["f", n]]
    cid = interface.Cid()
    try:
        cid.read("x", rows)
        ok = True
    except errors.InterfaceError as err:
        ok = False
    s = n.strip()
    exp = s != "" and s[0] in "aZ" and all(c in "aZ_1" for c in s) and not keyword.iskeyword(s)
    return ok == exp and (not ok or cid.field_names == [s])
