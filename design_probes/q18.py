import copy
from cutplace import rowio, errors, interface, validio, _compat
from drv import assume
from crosshair.tracers import NoTracing
_compat.text_repr = lambda text: "<repr>"

CID_TEXT = """d,format,delimited
f,k,,,1:1,Text
f,v,,,1:1,Text
c,u,IsUnique,k
c,n,DistinctCount,k <= 1
"""
REAL = rowio.delimited_rows
rowio.delimited_rows = lambda src, fmt: iter(src) if isinstance(src, list) else REAL(src, fmt)
def fresh():
    with NoTracing():
        return interface.create_cid_from_string(CID_TEXT)

def run_reader(cid, rows, mode):
    out = []
    rd = validio.Reader(cid, rows, on_error=mode)
    try:
        for r in rd.rows():
            out.append(("err", r.location.line, type(r).__name__) if isinstance(r, errors.DataError) else ("row", r))
    except errors.DataError as e:
        out.append(("raised", e.location.line, type(e).__name__))
    try:
        rd.close(); out.append("closed-ok")
    except errors.CheckError:
        out.append("closed-fail")
    return out

def h_read(pa: bool, pb: bool, da: bool, k0: str, v0: str, k1: str, v1: str, k2: str, v2: str):
    """arbitrary pre-state of both checks, then one read; must equal fresh"""
    for k in (k0, k1, k2): assume(k in ("a", "b"))
    for v in (v0, v1, v2): assume(len(v) <= 2)
    rows = [[k0, v0], [k1, v1], [k2, v2]]
    used = fresh()
    loc = errors.Location("old.csv", has_cell=True)
    u = used.check_map["u"]; n = used.check_map["n"]
    if pa: u._row_key_to_location_map[("a",)] = loc
    if pb: u._row_key_to_location_map[("b",)] = loc
    if da: n._distinct_value_to_count_map["z"] = 3
    return run_reader(used, rows, "yield") == run_reader(fresh(), rows, "yield")

def h_write(pa: bool, pb: bool, k0: str, v0: str):
    assume(k0 in ("a", "b")); assume(len(v0) <= 2)
    class W:
        def __init__(self): self.rows = []
        def writerow(self, r): self.rows.append(list(r))
    def run(cid):
        w = W()
        old = _compat.csv_writer
        _compat.csv_writer = lambda stream, **kw: w
        try:
            wr = validio.Writer(cid, object())
            try:
                wr.write_row([k0, v0]); res = "ok"
            except errors.DataError as e:
                res = type(e).__name__
            return res, w.rows
        finally:
            _compat.csv_writer = old
    used = fresh()
    loc = errors.Location("old.csv", has_cell=True)
    u = used.check_map["u"]
    if pa: u._row_key_to_location_map[("a",)] = loc
    if pb: u._row_key_to_location_map[("b",)] = loc
    return run(used) == run(fresh())
