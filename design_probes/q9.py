import decimal
from cutplace import errors, _compat, fields, data
from drv import assume
_compat.text_repr = lambda text: "<repr>"
D = data.DataFormat("delimited"); D.set_property("decimal_separator", ","); D.set_property("thousands_separator", "."); D.validate()
F = fields.DecimalFieldFormat("d", False, "", "-1.5:20.25", D)

def spec(v):
    t = ""; seen = False
    for c in v:
        if c == ",":
            if seen: return None
            seen = True; t += "."
        elif c == ".":
            if seen: return None
        else:
            t += c
    try:
        x = decimal.Decimal(t)
    except decimal.InvalidOperation:
        return None
    if not x.is_finite(): return None
    return x if decimal.Decimal("-1.5") <= x <= decimal.Decimal("20.25") else None

def h_dec(v: str):
    assume(1 <= len(v) <= 3)
    assume(all(c in "12.,-" for c in v))
    try:
        r = F.validated(v)
    except errors.FieldValueError:
        r = None
    return r == spec(v)
