from drv import assume
from crosshair.tracers import NoTracing
def h(c: str):
    assume(len(c) == 1 and 33 <= ord(c) <= 126)
    s = c + " "
    t = s.rstrip()
    r1 = (c == t); r2 = (t[0] == c[0]); r3 = (len(t) == 1); r4 = (s[:1] == c); r5 = (s == c + " "); r6 = (t + "" == c); r7 = (str(t) == c)
    u = s[:len(s) - 1]
    r8 = (u == c)
    w = (c + "x")[:-1]
    r9 = (w == c)
    with NoTracing():
        print([type(x).__name__ + ":" + str(bool(x)) if isinstance(x, bool) else type(x).__name__ for x in (r1, r2, r3, r4, r5, r6, r7, r8, r9)])
    return True
