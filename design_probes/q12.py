import io
from cutplace import rowio, errors, interface, validio, _compat, data, fields, checks
from drv import assume
from crosshair.tracers import NoTracing
_compat.text_repr = lambda text: "<repr>"

LOG = []
class RecFieldFormat(fields.AbstractFieldFormat):
    def __init__(self, name, empty, length, rule, data_format):
        super().__init__(name, empty, length, rule, data_format, empty_value="")
    def validated_value(self, value):
        LOG.append(("val", self.field_name, value))
        if value == "!":
            raise errors.FieldValueError("bad")
        return value

VETO = {}
class RecCheck(checks.AbstractCheck):
    def __init__(self, d, r, names, loc=None):
        super().__init__(d, r, names, loc)
    def reset(self): LOG.append(("reset", self.description))
    def check_row(self, m, loc):
        LOG.append(("row", self.description, loc.line))
        if VETO.get((self.description, loc.line)):
            raise errors.CheckError("veto", loc)
    def check_at_end(self, loc): LOG.append(("end", self.description))
    def cleanup(self): LOG.append(("cleanup", self.description))

CID_TEXT = """d,format,delimited
f,a,,,1:1,Rec
f,b,,X,,Rec
c,k1,Rec,x
c,k2,Rec,x
"""
def fresh():
    with NoTracing():
        real = rowio.delimited_rows
        cid = interface.create_cid_from_string(CID_TEXT)
    return cid
REAL_DELIM = rowio.delimited_rows
def stub_rows(source, data_format):
    if isinstance(source, list): return iter(source)
    return REAL_DELIM(source, data_format)
rowio.delimited_rows = stub_rows

def predict(rows, header, limit, veto):
    log = [("reset", "k1"), ("reset", "k2")]
    for i, row in enumerate(rows, 1):
        if i <= header or (limit is not None and i > limit):
            continue
        ok = True
        for name, cell, empty_ok, exact in (("a", row[0], False, True), ("b", row[1], True, False)):
            if cell == "":
                if not empty_ok: ok = False; break
                continue
            if exact and len(cell) != 1: ok = False; break
            log.append(("val", name, cell))
            if cell == "!": ok = False; break
        if ok:
            for k in ("k1", "k2"):
                log.append(("row", k, i - 1))
                if veto.get((k, i - 1)): break
    log += [("end", "k1"), ("end", "k2"), ("cleanup", "k1"), ("cleanup", "k2")]
    return log

def h(header: int, has_limit: bool, limit: int, c00: str, c01: str, c10: str, c11: str, v0: bool, v1: bool):
    assume(0 <= header <= 2 and 0 <= limit <= 3)
    for c in (c00, c01, c10, c11): assume(len(c) <= 2)
    rows = [[c00, c01], [c10, c11]]
    cid = fresh()
    cid.data_format._header = header
    lim = limit if has_limit else None
    VETO.clear(); VETO[("k1", 0)] = v0; VETO[("k1", 1)] = v1
    del LOG[:]
    for _ in validio.rows(cid, rows, on_error="yield", validate_until=lim):
        pass
    return LOG == predict(rows, header, lim, dict(VETO))
