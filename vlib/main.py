"""Entry point: python -m vlib.main <ID> [--tier quick|thorough] [--replay FILE]"""
import argparse
import importlib
import json
import os
import sys
import time

REPO = os.environ.get("VERIF_REPO", "/repo")
sys.path.insert(0, REPO)


def _partial_runs_do_not_touch_registered_evidence():
    """a run restricted with --only covers part of a check: its evidence and replays go to a scratch directory"""
    import tempfile
    if "--only" in " ".join(sys.argv) and not os.environ.get("VERIF_OUT"):
        os.environ["VERIF_OUT"] = tempfile.mkdtemp(prefix="verif_partial_")
        print("partial run (--only): evidence and replays are written to %s" % os.environ["VERIF_OUT"], file=sys.stderr)


_partial_runs_do_not_touch_registered_evidence()


def main(argv=None):
    ap = argparse.ArgumentParser()
    ap.add_argument("prop")
    ap.add_argument("--tier", default=os.environ.get("VERIF_TIER", "quick"), choices=["quick", "thorough"])
    ap.add_argument("--replay")
    ap.add_argument("--jobs", type=int, default=0)
    ap.add_argument("--only", help="substring filter on query ids (debugging; evidence is marked partial)")
    ap.add_argument("--list", action="store_true")
    ap.add_argument("-v", action="store_true")
    args = ap.parse_args(argv)
    seed = int(os.environ.get("VERIF_SEED", "0") or 0)
    t0 = time.time()
    import cutplace  # noqa  (the current working tree)

    assert os.path.realpath(cutplace.__file__).startswith(os.path.realpath(REPO)), cutplace.__file__
    from . import engine, report, enginecheck

    mod = importlib.import_module("props." + args.prop.lower())
    if args.replay:
        case = json.load(open(args.replay))
        rep, detail = mod.replay_case(case)
        print("replay %s: %s -- %s" % (args.replay, "REPRODUCED" if rep else "not reproduced", detail))
        if rep:
            print("VIOLATION property=%s replay=%s" % (args.prop, args.replay))
        return 1 if rep else 0
    plan = mod.build(args.tier, seed)
    queries = list(plan["queries"])
    if args.only:
        queries = [q for q in queries if args.only in q.qid]
    if args.list:
        for q in queries:
            print(q.qid, q.bounds)
        return 0
    eq = enginecheck.queries()
    allq = eq + queries

    def progress(r):
        if args.v or r["verdict"] not in ("confirmed",):
            print("  [%s] %s paths=%s cpu=%ss %s" % (r["verdict"], r["qid"], r.get("paths"), r.get("cpu_s"),
                                                     r.get("error", "")), file=sys.stderr)

    results = engine.run_queries(allq, jobs=args.jobs or None, progress=progress,
                                 warm=plan.get("warm", ("strip",)))
    eres, qres = results[:len(eq)], results[len(eq):]
    bad_engine = [r for r in eres if r["verdict"] != "confirmed"]
    if bad_engine:
        for r in bad_engine:
            print("HARNESS-ERROR engine micro-suite: %s %s %s" % (r["qid"], r["verdict"], r.get("cex") or r.get("error")))
        # still write evidence so that the run is documented, but never report success
    native = None
    native_crash = None
    if plan.get("native") is not None:
        try:
            native = plan["native"]()
        except Exception:  # noqa  -- an exception the native part did not expect: never a success, never a silent exit
            import traceback
            native_crash = traceback.format_exc()
            native = dict(count=0, failures=[], samples=[])
    rc = report.finish(args.prop, args.tier, seed, qres, queries, t0,
                       extra_assumptions=plan.get("assumptions", ()), outside_claim=plan.get("outside_claim", ()),
                       native_checks=native, exhaustive=plan.get("exhaustive", True) and not args.only)
    if native_crash is not None:
        print("HARNESS-ERROR native part raised an exception it does not handle:\n%s" % native_crash)
    if (bad_engine or native_crash is not None) and rc == 0:
        rc = report.EXIT_HARNESS
    return rc


if __name__ == "__main__":
    sys.exit(main())
