"""Evidence files, VIOLATION / KNOWN-FINDING lines, replay files, exit codes (DESIGN.md 2.4, 2.6)."""
import hashlib
import importlib
import inspect
import json
import os
import time

VERIF = os.path.dirname(os.path.dirname(os.path.abspath(__file__)))
_OUT = os.environ.get("VERIF_OUT") or VERIF  # VERIF_OUT: scratch output dir used when running against mutants
EVIDENCE_DIR = os.path.join(_OUT, "evidence")
REPLAY_DIR = os.path.join(_OUT, "replays")
KNOWN_FINDINGS = os.path.join(VERIF, "known_findings.json")

EXIT_OK = 0
EXIT_VIOLATION = 1
EXIT_HARNESS = 3


def load_known_findings(prop_id):
    try:
        with open(KNOWN_FINDINGS) as f:
            doc = json.load(f)
    except FileNotFoundError:
        return []
    return [e for e in doc.get("findings", []) if e.get("property") == prop_id]


def function_hashes(qualified_names):
    """['cutplace.ranges.Range.validate', ...] -> {name: sha256 of its current source}"""
    out = {}
    for qn in qualified_names:
        parts = qn.split(".")
        obj = None
        for cut in range(len(parts), 0, -1):
            try:
                obj = importlib.import_module(".".join(parts[:cut]))
                rest = parts[cut:]
                break
            except ImportError:
                continue
        try:
            for r in rest:
                obj = getattr(obj, r)
            if isinstance(obj, property):
                obj = obj.fget
            src = inspect.getsource(obj)
            out[qn] = hashlib.sha256(src.encode("utf-8")).hexdigest()[:16]
        except Exception as e:  # noqa
            out[qn] = "unavailable: %s" % type(e).__name__
    return out


def finish(prop_id, tier, seed, results, queries, t_start, extra_assumptions=(), outside_claim=(),
           native_checks=None, rule=None, exhaustive=True):
    """Classify the results, print the protocol lines, write evidence, return the exit code.

    native_checks: optional dict(count=int, failures=[{what, key, replay}]) from a module's native part
    (stub validation / concrete assertions); failures are treated like reproduced violations.
    """
    os.makedirs(EVIDENCE_DIR, exist_ok=True)
    os.makedirs(REPLAY_DIR, exist_ok=True)
    known = load_known_findings(prop_id)
    qmap = {q.qid: q for q in queries}
    n_viol = 0
    n_known = 0
    harness_errors = []
    inconclusive = []
    discharged = 0
    states = transitions = native_ok = realizations = 0
    cpu = 0.0
    classes_seen = set()
    samples = []
    replay_n = [0]
    printed_known = set()
    per_key = {}

    def report_violation(key, what, payload):
        nonlocal n_viol, n_known
        for e in known:
            if e.get("key") == key:
                n_known += 1
                if key not in printed_known:
                    printed_known.add(key)
                    print("KNOWN-FINDING: property=%s %s" % (prop_id, e.get("what", key)))
                return
        n_viol += 1
        per_key[key] = per_key.get(key, 0) + 1
        if per_key[key] > 3 or replay_n[0] >= 12:
            return  # counted, but do not flood the output: at most 3 replay files per key, 12 per run
        replay_n[0] += 1
        path = os.path.join(REPLAY_DIR, "%s-%d.json" % (prop_id, replay_n[0]))
        with open(path, "w") as f:
            json.dump(dict(property=prop_id, key=key, what=what, **payload), f, indent=1, sort_keys=True, default=repr)
        print("VIOLATION property=%s replay=%s" % (prop_id, path))
        print("  key=%s :: %s" % (key, what[:400]))

    for r in results:
        states += r.get("paths", 0)
        transitions += r.get("transitions", 0)
        native_ok += r.get("native_ok", 0)
        realizations += r.get("realizations", 0)
        cpu += r.get("cpu_s", 0.0)
        for c in r.get("classes", {}):
            classes_seen.add((r["family"], c))
        v = r["verdict"]
        q = qmap.get(r["qid"])
        if v == "confirmed":
            discharged += 1
            if len(samples) < 6 and r.get("witnesses"):
                samples.append(dict(query=r["qid"], bounds=q.bounds if q else None, paths=r["paths"],
                                    outcome_classes=r["classes"], one_model=r["witnesses"][0]))
        elif v == "refuted":
            for c in r["violations"]:
                rep, detail, key = c["replay"]
                report_violation(key, "%s: %s | replay: %s" % (r["qid"], c["what"], detail),
                                 dict(query=r["qid"], family=r["family"], args=c["args"], observed=c["what"],
                                      replay_detail=detail, bounds=q.bounds if q else None))
                native_ok += 1
            for c in r["unreproduced"]:
                harness_errors.append("%s: counterexample did not reproduce natively: %s args=%r replay=%r" % (
                    r["qid"], c["what"], c["args"], c.get("replay")))
            if not r["violations"] and not r["unreproduced"]:
                harness_errors.append("%s: refuted without counterexample" % r["qid"])
            if q is not None and q.keep_going and not r.get("exhausted"):
                inconclusive.append("%s: exploration past the recorded finding(s) did not exhaust (paths=%s cpu=%s)" % (
                    r["qid"], r.get("paths"), r.get("cpu_s")))
        elif v in ("inconclusive",):
            inconclusive.append("%s: paths=%s unknown=%s cpu=%s %s %s" % (
                r["qid"], r.get("paths"), r.get("unknown"), r.get("cpu_s"), r.get("error", ""), r.get("unknown_why", "")))
        else:  # vacuous, engine_divergence, harness_error
            harness_errors.append("%s: %s %s %s %s" % (r["qid"], v, r.get("error", ""), r.get("missing_classes", ""),
                                                    (r.get("divergences") or [""])[0]))
            if r.get("traceback"):
                harness_errors.append(r["traceback"])
    nat_count = 0
    if native_checks:
        nat_count = native_checks.get("count", 0)
        for f in native_checks.get("failures", []):
            report_violation(f["key"], f["what"], dict(query="native", family="native", args=f.get("args"),
                                                       observed=f["what"]))
        for s in native_checks.get("samples", [])[:2]:
            samples.append(s)
    for line in harness_errors:
        print("HARNESS-ERROR %s" % line)
    for line in inconclusive:
        print("INCONCLUSIVE %s" % line)
    functions = sorted({f for q in queries for f in q.functions})
    stubs = sorted({s for q in queries for s in q.stubs})
    wall = round(time.time() - t_start, 2)
    if not samples:
        samples = [dict(query=r["qid"], verdict=r["verdict"], paths=r.get("paths")) for r in results[:3]] or [
            dict(note="no query ran")]
    evidence = dict(
        property_id=prop_id, tier=tier, seed=seed, level="model_checking",
        coverage=dict(
            states=max(states, 0), transitions=max(transitions, 0),
            traces_validated_against_impl=native_ok + nat_count,
            samples=samples,
            evaluations=len(results) + nat_count,
            distinct_nontrivial=len(classes_seen),
            rule=rule or ("one evaluation = one solver query (a harness over the real functions with symbolic "
                          "inputs, explored until the path tree is exhausted) or one native stub-validation case; "
                          "distinct_nontrivial = number of distinct (query family, outcome class) pairs reached on "
                          "confirmed paths"),
            exhaustive=bool(exhaustive and not inconclusive and not harness_errors),
            queries=len(results), discharged=discharged, inconclusive=len(inconclusive),
            harness_errors=len(harness_errors), known_findings_hit=n_known,
            realizations=realizations, solver_cpu_s=round(cpu, 2),
            functions_encoded=function_hashes(functions), stubs_in_force=stubs,
            bounds=[dict(query=q.qid, bounds=q.bounds) for q in queries][:400],
            outside_claim=list(outside_claim),
            native_cases=nat_count,
        ),
        assumptions=list(extra_assumptions) + [
            "CrossHair 0.0.110 models of str/int/bool/list agree with CPython 3.12 (engine micro-suite + native "
            "re-run of one concrete model per explored path reduce, not remove, this trust)",
            "z3 5.1.0 verdicts (sat/unsat) are correct; 'unknown' and timeouts are never counted as success",
            "stubs listed in coverage.stubs_in_force behave like the real callee (validated natively on concrete inputs)",
        ],
        wall_s=wall, violations=n_viol,
    )
    with open(os.path.join(EVIDENCE_DIR, "%s.json" % prop_id), "w") as f:
        json.dump(evidence, f, indent=1, sort_keys=True, default=repr)
    print("%s tier=%s queries=%d discharged=%d inconclusive=%d harness_errors=%d violations=%d known=%d paths=%d "
          "native=%d cpu=%.1fs wall=%.1fs" % (prop_id, tier, len(results), discharged, len(inconclusive),
                                               len(harness_errors), n_viol, n_known, states, native_ok + nat_count,
                                               cpu, wall))
    if n_viol:
        return EXIT_VIOLATION
    if harness_errors or inconclusive:
        return EXIT_HARNESS
    return EXIT_OK
