"""In-process CrossHair driver: bounded symbolic execution of a harness until the path tree is exhausted.

decide(harness)            explore all paths of ``harness`` (typed parameters become symbolic values)
run_queries(queries, ...)  run many queries, one forked process each, up to N at a time

A query is *discharged* only if the path tree was exhausted, no path ended unknown (solver 'unknown',
per-path timeout, unsupported operation) and at least one path was confirmed.  A refuted path yields the
concrete model of the harness arguments.  See DESIGN.md section 2.3.
"""
import re
import inspect
import multiprocessing
import os
import random
import sys
import time
import traceback
from collections import Counter
from time import process_time

from . import chstubs

_CH = None


def _ch():
    """Import CrossHair lazily (keeps `--help`, replay and evidence code importable without it)."""
    global _CH
    if _CH is None:
        chstubs.install()
        import types

        ns = types.SimpleNamespace()
        from crosshair.core import Patched, gen_args, deep_realize, ExceptionFilter
        from crosshair.core_and_libs import NoTracing, ResumedTracing
        from crosshair.statespace import StateSpace, RootNode, StateSpaceContext, CallAnalysis, VerificationStatus
        from crosshair.util import IgnoreAttempt, UnexploredPath, NotDeterministic
        from crosshair.tracers import COMPOSITE_TRACER
        from crosshair.copyext import deepcopyext, CopyMode
        from crosshair.condition_parser import condition_parser
        from crosshair.options import AnalysisKind

        for k, v in list(locals().items()):
            setattr(ns, k, v)
        # count realizations (places where a concrete value is demanded from the solver)
        orig = StateSpace.find_model_value
        ns.realizations = [0]

        def counting(self, expr, *a, **kw):
            ns.realizations[0] += 1
            return orig(self, expr, *a, **kw)

        StateSpace.find_model_value = counting
        _CH = ns
    return _CH


class HarnessOutOfDate(BaseException):
    """a white-box part of a harness no longer matches the implementation: reported as a harness error (exit 3)"""


class AssumeFailed(Exception):
    """Raised by assume() in native mode."""


_native = [False]


def assume(cond):
    """Precondition: paths on which ``cond`` is false are ignored (not counted as confirmed)."""
    if _native[0]:
        if not cond:
            raise AssumeFailed()
        return
    if not cond:
        raise _ch().IgnoreAttempt("assume")


def is_native():
    return _native[0]


def _split(ret):
    """harness result -> (ok, outcome_class)"""
    if isinstance(ret, tuple):
        return ret[0], ret[1]
    return ret, "ok"


def decide(fn, budget_s=60.0, per_path_timeout=20.0, max_paths=10 ** 9, collect_witnesses=0, keep_going=False,
           max_cex=8):
    """Explore the paths of ``fn`` symbolically.

    Returns a dict with: verdict in {confirmed, refuted, vacuous, inconclusive}, paths, confirmed, ignored,
    unknown, transitions, realizations, classes (Counter of outcome classes on confirmed paths), cex (list of
    {args, what}), witnesses (list of {args, cls} - concrete models of confirmed paths), cpu_s.
    """
    ch = _ch()
    sig = inspect.signature(fn)
    root = ch.RootNode()
    t0 = process_time()
    paths = confirmed = ignored = unknown = transitions = realized = 0
    classes = Counter()
    cexs = []
    witnesses = []
    unknown_why = Counter()
    exhausted = False
    while paths < max_paths:
        if process_time() - t0 > budget_s:
            break
        paths += 1
        start = process_time()
        space = ch.StateSpace(execution_deadline=start + per_path_timeout,
                              model_check_timeout=per_path_timeout / 2, search_root=root)
        status = None
        refuted_here = None
        with ch.condition_parser([ch.AnalysisKind.PEP316]), ch.Patched(), ch.COMPOSITE_TRACER, ch.NoTracing(), \
                ch.StateSpaceContext(space):
            try:
                pre_args = ch.gen_args(sig)
                args = ch.deepcopyext(pre_args, ch.CopyMode.REGULAR, {})
                ok = None
                cls = "ok"
                real0 = ch.realizations[0]
                with ch.ExceptionFilter() as ef, ch.ResumedTracing():
                    ret = fn(*args.args, **args.kwargs)
                    ok, cls = _split(ret)
                    ok = bool(ok)
                realized += ch.realizations[0] - real0
                if ef.ignore:
                    status = ef.analysis.verification_status  # None (ignored) or UNKNOWN
                    if status is None:
                        ignored += 1
                    else:
                        unknown += 1
                        unknown_why[str(ef.analysis.messages[0].message)[:200] if ef.analysis.messages else "unknown"] += 1
                elif ef.user_exc is not None:
                    exc, tb = ef.user_exc
                    if isinstance(exc, ch.NotDeterministic):
                        raise ch.NotDeterministic
                    with ch.ResumedTracing():
                        space.detach_path(exc)
                        model = {k: ch.deep_realize(v) for k, v in pre_args.arguments.items()}
                    try:
                        tbtxt = "".join(traceback.format_list(tb[-6:])) if tb else ""
                    except Exception:
                        tbtxt = ""
                    refuted_here = dict(args=model, what="exception %s: %s" % (type(exc).__name__, str(exc)[:300]),
                                        traceback=tbtxt[-1500:])
                    status = ch.VerificationStatus.REFUTED
                elif ok:
                    status = ch.VerificationStatus.CONFIRMED
                    confirmed += 1
                    with ch.NoTracing():
                        cls = str(cls)
                    classes[cls] += 1
                    if len(witnesses) < collect_witnesses:
                        with ch.ResumedTracing():
                            space.detach_path()
                            model = {k: ch.deep_realize(v) for k, v in pre_args.arguments.items()}
                        witnesses.append(dict(args=model, cls=cls))
                else:
                    with ch.ResumedTracing():
                        space.detach_path()
                        model = {k: ch.deep_realize(v) for k, v in pre_args.arguments.items()}
                    with ch.NoTracing():
                        cls = str(cls)
                    refuted_here = dict(args=model, what="postcondition false [%s]" % cls, traceback="")
                    status = ch.VerificationStatus.REFUTED
            except ch.IgnoreAttempt:
                status = None
                ignored += 1
            except ch.UnexploredPath as e:
                status = ch.VerificationStatus.UNKNOWN
                unknown += 1
                unknown_why[type(e).__name__ + ": " + str(e)[:160]] += 1
            transitions += len(space.choices_made)
            _a, exhausted = space.bubble_status(ch.CallAnalysis(status))
        if refuted_here is not None:
            cexs.append(refuted_here)
            if not keep_going or len(cexs) >= max_cex:
                break
        if exhausted:
            break
    if cexs:
        verdict = "refuted"
    elif exhausted and unknown == 0 and confirmed > 0:
        verdict = "confirmed"
    elif exhausted and unknown == 0 and confirmed == 0:
        verdict = "vacuous"
    else:
        verdict = "inconclusive"
    return dict(verdict=verdict, paths=paths, confirmed=confirmed, ignored=ignored, unknown=unknown,
                exhausted=bool(exhausted), transitions=transitions, realizations=realized,
                classes=dict(classes), cex=cexs, witnesses=witnesses, unknown_why=dict(unknown_why),
                cpu_s=round(process_time() - t0, 3))


_STUB_MISS = re.compile(r"'(Fake|Multi|IntStub|Echo|Recorder|Stream|WriteStream|Counting)\w*' object has no attribute|"
                        r"(Fake|Echo)\w+\.\w+\(\) (takes|got|missing)")


def run_native(fn, args):
    """Run the harness on concrete arguments with plain CPython (no tracing).

    -> (status, cls, detail); status in {ok, false, assume, exception}."""
    _native[0] = True
    try:
        try:
            ok, cls = _split(fn(**args))
            return ("ok" if ok else "false"), str(cls), ""
        except AssumeFailed:
            return "assume", "", ""
        except Exception as e:  # noqa
            return "exception", "", "%s: %s" % (type(e).__name__, str(e)[:300])
    finally:
        _native[0] = False


class Query:
    """One solver query = one harness with its bounds.

    make(mode) -> harness callable.  mode 'sym': run under CrossHair with environment stubs;
    'native': same harness and same stubs on concrete values (engine cross-check).
    replay(args) -> (reproduced: bool, detail: str, key: str): re-runs the case through the public API with
    *no* stubs; ``key`` identifies the failing input / call site for known-findings matching.
    If replay is None the native run of the harness (which then must use no environment stub) is the replay.
    """

    def __init__(self, qid, family, make, bounds, budget_s=60.0, per_path_timeout=20.0, expect=(), replay=None,
                 keep_going=False, stubs=(), functions=(), witnesses=40, note="", max_cex=8):
        self.qid = qid
        self.family = family
        self.make = make
        self.bounds = bounds
        self.budget_s = budget_s
        self.per_path_timeout = per_path_timeout
        self.expect = tuple(expect)
        self.replay = replay
        self.keep_going = keep_going
        self.stubs = tuple(stubs)
        self.functions = tuple(functions)
        self.witnesses = witnesses
        self.note = note
        self.max_cex = max_cex


def _jsonable(x):
    if isinstance(x, (str, int, bool)) or x is None:
        return x
    if isinstance(x, float):
        return x
    if isinstance(x, (list, tuple)):
        return [_jsonable(i) for i in x]
    if isinstance(x, dict):
        return {str(k): _jsonable(v) for k, v in x.items()}
    return repr(x)


RELOAD_ORDER = ("cutplace._tools", "cutplace.ranges", "cutplace.data", "cutplace.fields", "cutplace.checks",
                "cutplace.rowio", "cutplace.interface", "cutplace.validio", "cutplace.sql")


def _with_fresh_modules(fn):
    """Wrap a harness so that every path starts from freshly loaded cutplace modules (fallback used when the code
    under test keeps state across calls at module / class level, which CrossHair reports as NotDeterministic)."""
    import functools
    import importlib

    @functools.wraps(fn)
    def wrapper(*a, **k):
        ch = _ch()
        ctx = ch.NoTracing() if not _native[0] else None
        if ctx is not None:
            with ctx:
                for name in RELOAD_ORDER:
                    if name in sys.modules:
                        importlib.reload(sys.modules[name])
        return fn(*a, **k)

    return wrapper


def _execute(q):
    """Runs in the forked child: symbolic exploration, then native cross-check / replay."""
    t0 = time.time()
    fn = q.make("sym")
    reloaded = False
    try:
        r = decide(fn, budget_s=q.budget_s, per_path_timeout=q.per_path_timeout, collect_witnesses=q.witnesses,
                   keep_going=q.keep_going, max_cex=q.max_cex)
    except BaseException as e:  # noqa
        if type(e).__name__ != "NotDeterministic":
            raise
        # hidden state across paths: explore again with freshly loaded modules per path
        reloaded = True
        fn = _with_fresh_modules(q.make("sym"))
        r = decide(fn, budget_s=q.budget_s, per_path_timeout=q.per_path_timeout, collect_witnesses=q.witnesses,
                   keep_going=q.keep_going, max_cex=q.max_cex)
    r["reloaded_modules_per_path"] = reloaded
    # the native phase starts from freshly loaded cutplace modules: no symbolic value that leaked into module or
    # class level state during the exploration can reach it
    import importlib
    for name in RELOAD_ORDER:
        if name in sys.modules:
            importlib.reload(sys.modules[name])
    r["qid"] = q.qid
    r["family"] = q.family
    r["native_ok"] = 0
    r["divergences"] = []
    r["violations"] = []
    r["unreproduced"] = []
    nat = None
    if r["verdict"] == "confirmed":
        missing = [c for c in q.expect if c not in r["classes"]]
        if missing:
            r["verdict"] = "vacuous"
            r["missing_classes"] = missing
        nat = q.make("native")
        for w in r["witnesses"]:
            st, cls, detail = run_native(nat, w["args"])
            if st == "ok" and cls == w["cls"]:
                r["native_ok"] += 1
            else:
                r["divergences"].append(dict(args=_jsonable(w["args"]), symbolic=w["cls"], native=[st, cls, detail]))
        if r["divergences"]:
            r["verdict"] = "engine_divergence"
    elif r["verdict"] == "refuted":
        nat = q.make("native")
        for c in r["cex"]:
            st, cls, detail = run_native(nat, c["args"])
            c["native"] = [st, cls, detail]
            if q.replay is not None:
                try:
                    rep, rdetail, key = q.replay(c["args"])
                except Exception as e:  # replay itself broke: treat as not reproduced
                    rep, rdetail, key = False, "replay raised %s: %s" % (type(e).__name__, e), ""
            else:
                rep = st in ("false", "exception")
                rdetail = "native harness run: %s %s %s" % (st, cls, detail)
                key = q.family
            # an implementation that calls something a stub does not offer (e.g. ElementTree.fromstring instead of
            # parse) says nothing about the property: harness error, never a violation
            if rep and _STUB_MISS.search("%s %s" % (rdetail, c.get("what", ""))):
                rep, rdetail = False, "the implementation uses an interface the environment stub does not provide: %s" % rdetail
            c["replay"] = [bool(rep), rdetail, key]
            c["args"] = _jsonable(c["args"])
            (r["violations"] if rep else r["unreproduced"]).append(c)
    r["witnesses"] = [_jsonable(w) for w in r["witnesses"][:3]]
    r["wall_s"] = round(time.time() - t0, 2)
    return r


def _child(q, conn):
    try:
        sys.setrecursionlimit(20000)
        r = _execute(q)
    except BaseException as e:  # noqa
        r = dict(qid=q.qid, family=q.family, verdict="harness_error", error="%s: %s" % (type(e).__name__, e),
                 traceback=traceback.format_exc()[-3000:], paths=0, confirmed=0, ignored=0, unknown=0,
                 transitions=0, realizations=0, classes={}, cex=[], witnesses=[], cpu_s=0.0, native_ok=0,
                 divergences=[], violations=[], unreproduced=[], wall_s=0.0)
    try:
        conn.send(r)
    finally:
        conn.close()


def run_queries(queries, jobs=None, progress=None, warm=("strip",)):
    """Run every query in its own forked process (isolation of monkeypatching, hard wall-clock limit)."""
    jobs = jobs or int(os.environ.get("VERIF_JOBS", "0")) or min(16, os.cpu_count() or 4)
    _ch()  # import CrossHair once in the parent; the forked workers inherit it
    _warm_up(warm)
    ctx = multiprocessing.get_context("fork")
    pending = list(enumerate(queries))
    running = {}
    results = [None] * len(queries)
    while pending or running:
        while pending and len(running) < jobs:
            i, q = pending.pop(0)
            parent, child = ctx.Pipe(duplex=False)
            p = ctx.Process(target=_child, args=(q, child))
            p.start()
            child.close()
            running[i] = (p, parent, time.time(), q)
        done = []
        for i, (p, conn, started, q) in running.items():
            limit = q.budget_s * 2.5 + 60
            if conn.poll(0):
                try:
                    results[i] = conn.recv()
                except EOFError:
                    results[i] = None
                p.join(5)
                done.append(i)
            elif not p.is_alive():
                p.join()
                done.append(i)
            elif time.time() - started > limit:
                p.kill()
                p.join()
                results[i] = dict(qid=q.qid, family=q.family, verdict="inconclusive", error="wall clock limit",
                                  paths=0, confirmed=0, ignored=0, unknown=0, transitions=0, realizations=0,
                                  classes={}, cex=[], witnesses=[], cpu_s=limit, native_ok=0, divergences=[],
                                  violations=[], unreproduced=[], wall_s=limit)
                done.append(i)
        for i in done:
            p, conn, started, q = running.pop(i)
            if results[i] is None:
                results[i] = dict(qid=q.qid, family=q.family, verdict="harness_error",
                                  error="worker died (exit %s)" % p.exitcode, paths=0, confirmed=0, ignored=0,
                                  unknown=0, transitions=0, realizations=0, classes={}, cex=[], witnesses=[],
                                  cpu_s=0.0, native_ok=0, divergences=[], violations=[], unreproduced=[], wall_s=0.0)
            conn.close()
            if progress:
                progress(results[i])
        if not done:
            time.sleep(0.02)
    return results


def _warm_up(what):
    """Populate CrossHair's lazily built tables (Unicode categories etc.) before forking."""

    def w_strip(s: str):
        assume(len(s) <= 1)
        return s.strip() == s or True

    def w_lower(s: str):
        assume(len(s) <= 1)
        return s.lower() == s or True

    for name, fn in (("strip", w_strip), ("lower", w_lower)):
        if name in what:
            try:
                decide(fn, budget_s=20.0, max_paths=4)
            except Exception:  # noqa
                pass


def seeded_sample(items, k, seed):
    items = list(items)
    if len(items) <= k:
        return items
    rnd = random.Random(seed)
    return rnd.sample(items, k)
