"""CrossHair-level stubs and the engine patch (DESIGN.md sections 3 S-FMT and 4.4 E-PATCH).

Installed once per process by ``install()``; everything here is part of the trusted base.

* S-FMT  opaque message formatting: ``"..." % args`` and the f-string opcodes never realise or fork on
  symbolic operands -- a placeholder is substituted (messages that depend on symbolic values are not
  checked; concrete operands format normally; operand *types* are preserved so ``%d`` with ``None``
  still raises).
* E-PATCH  ``SequenceConcatenation.__eq__`` compares element-wise, ignoring the container type
  (CrossHair 0.0.110 returns False for list-vs-tuple typed code point sequences, which made
  ``(c + " ").rstrip() == c`` refutable).
"""
_installed = False


class Opaque:
    """Stands in for an arbitrary object inside a formatted message."""

    def __init__(self, s):
        self.s = s

    def __str__(self):
        return self.s

    __repr__ = __str__


def install():
    global _installed
    if _installed:
        return
    _installed = True
    from crosshair import core, opcode_intercept, simplestructs
    import crosshair.core_and_libs  # noqa: F401  (registers the library patches)
    import collections.abc
    from crosshair.tracers import NoTracing, ResumedTracing
    from crosshair.libimpl.builtinslib import AnySymbolicStr, SymbolicInt, SymbolicBool, SymbolicFloat

    SYM = (SymbolicInt, SymbolicBool, SymbolicFloat, AnySymbolicStr)

    # E-PATCH4: CrossHair 0.0.110 models '$' without re.MULTILINE as "end of string" only; CPython also matches
    # before a final line feed.  Such patterns are declared unhandled, which makes CrossHair fall back to
    # enumerating concrete subject strings (sound, possibly inconclusive) instead of deciding with a wrong model.
    import re as _re
    import crosshair.libimpl.relib as _relib
    _orig_match_patterns = _relib._internal_match_patterns

    def _guarded_match_patterns(top_patterns, flags, *a, **kw):
        if len(top_patterns) > 0:
            first = top_patterns[0]
            if first[0] is _relib.AT and first[1] is _relib.AT_END and not (flags & _re.MULTILINE):
                raise _relib.ReUnhandled("'$' without MULTILINE (matches before a final line feed)")
        return _orig_match_patterns(top_patterns, flags, *a, **kw)

    _relib._internal_match_patterns = _guarded_match_patterns

    def _placeholder(x, depth=0):
        if isinstance(x, SymbolicBool):
            return False
        if isinstance(x, SymbolicInt):
            return 0
        if isinstance(x, AnySymbolicStr):
            return "<sym>"
        if isinstance(x, SymbolicFloat):
            return 0.0
        if x is None or type(x) in (int, str, float, bool, bytes):
            return x
        if depth > 4:
            return Opaque("<...>")
        if type(x) is tuple:
            return tuple(_placeholder(i, depth + 1) for i in x)
        if type(x) is list:
            return [_placeholder(i, depth + 1) for i in x]
        if type(x) is dict:
            return {k: _placeholder(v, depth + 1) for k, v in x.items()}
        if isinstance(x, collections.abc.Mapping):  # CrossHair's dict proxies
            with ResumedTracing():
                pairs = [(k, v) for k, v in x.items()]
            return {(k if type(k) in (str, int) else str(_placeholder(k))): _placeholder(v, depth + 1) for k, v in pairs}
        return Opaque("<%s>" % type(x).__name__)

    def _opaque_percent(self, other):
        with NoTracing():
            if not isinstance(self, str):
                raise TypeError
            if isinstance(self, AnySymbolicStr):
                return "<symfmt>"
            return str.__mod__(self, _placeholder(other))

    core._PATCH_REGISTRATIONS[str.__mod__] = _opaque_percent

    F = opcode_intercept.FormatStashingValue
    o_str, o_fmt, o_repr = F.__str__, F.__format__, F.__repr__

    def _needs_placeholder(v):
        """symbolic scalars and containers (which may hold symbolic values somewhere inside)"""
        return isinstance(v, SYM) or type(v) in (list, tuple, dict) or isinstance(v, collections.abc.Mapping)

    def f_str(self):
        with NoTracing():
            if _needs_placeholder(self.value):
                self.formatted = str(_placeholder(self.value))
                return ""
        return o_str(self)

    def f_fmt(self, fmt):
        with NoTracing():
            if _needs_placeholder(self.value):
                self.formatted = format(_placeholder(self.value), fmt)
                return ""
        return o_fmt(self, fmt)

    def f_repr(self):
        with NoTracing():
            if _needs_placeholder(self.value):
                self.formatted = repr(_placeholder(self.value))
                return ""
        return o_repr(self)

    F.__str__, F.__format__, F.__repr__ = f_str, f_fmt, f_repr

    # ---- E-PATCH2: CrossHair 0.0.110 computes len(other) of a *sliced* symbolic string outside tracing in
    # `concrete_str.__contains__(symbolic)` and crashes ("Numeric operation on symbolic while not tracing").
    import z3
    from crosshair.core import realize
    from crosshair.libimpl import builtinslib as _bl

    def _str_contains(self, other):
        with NoTracing():
            if not isinstance(self, str):
                raise TypeError
            if not isinstance(other, AnySymbolicStr):
                return self.__contains__(other)
            with ResumedTracing():
                n = other.__len__()
                other_codepoints = [ord(c) for c in other]
            len_to_find = realize(n)
            my_codepoints = [ord(c) for c in self]
            num_options = len(self) + 1 - len_to_find
            if num_options <= 0:
                return False
            other_codepoints = list(map(SymbolicInt._coerce_to_smt_sort, other_codepoints))
            codepoint_options = [my_codepoints[i:i + len_to_find] for i in range(num_options)]
            conjunctions = [z3.And(*(cp1 == cp2 for (cp1, cp2) in zip(other_codepoints, cps))) if cps else z3.BoolVal(True)
                            for cps in codepoint_options]
            return _bl.SymbolicBool(z3.Or(*conjunctions))

    core._PATCH_REGISTRATIONS[str.__contains__] = _str_contains

    # ---- E-PATCH3: ord() of a sliced symbolic string indexes its code points outside tracing (same crash)
    def _ord(c):
        if len(c) != 1:
            raise TypeError
        with NoTracing():
            lazy = isinstance(c, _bl.LazyIntSymbolicStr)
        if lazy:
            return c._codepoints[0]  # indexing under tracing
        return ord(realize(c))

    core._PATCH_REGISTRATIONS[ord] = _ord

    # ---- E-PATCH
    def _seq_eq(self, other):
        try:
            n = self.__len__()
            m = other.__len__()
        except Exception:
            return False
        if n != m:
            return False
        for a, b in zip(self, other):
            if a is b:
                continue
            if a != b:
                return False
        return True

    simplestructs.SequenceConcatenation.__eq__ = _seq_eq
