"""Environment stubs (DESIGN.md section 3): module-global monkeypatching in the harness process only."""
import contextlib
import token


@contextlib.contextmanager
def patched(*triples):
    """patched((module, 'name', value), ...) -- assigns module globals / attributes, restores on exit."""
    saved = []
    try:
        for obj, name, value in triples:
            d = obj.__dict__ if hasattr(obj, "__dict__") else None
            had = name in d if d is not None else hasattr(obj, name)
            saved.append((obj, name, had, getattr(obj, name, None)))
            setattr(obj, name, value)
        yield
    finally:
        for obj, name, had, old in reversed(saved):
            if had:
                setattr(obj, name, old)
            else:
                try:
                    delattr(obj, name)
                except AttributeError:
                    pass


def quiet_repr():
    """S-FMT part 2: cutplace._compat.text_repr only builds messages; repr() of a symbolic str forks per character."""
    from cutplace import _compat

    return (_compat, "text_repr", lambda text: "<repr>")


def tok(t, s):
    return (t, s, (1, 0), (1, len(s)), s)


END = tok(token.ENDMARKER, "")
COMMA = tok(token.OP, ",")
HYPHEN = tok(token.OP, "-")
COLON = tok(token.OP, ":")


def NUMBER(name):
    return tok(token.NUMBER, name)


def NAME(text):
    return tok(token.NAME, text)


def STRING(text):
    return tok(token.STRING, text)


class IntStub:
    """S-INT: int(text) / int(text, 0) -> either ValueError or a value chosen by the harness (symbolic);
    the same text returns the same value; records the texts it was given."""

    def __init__(self, table=None, fail=False, value=None):
        self.table = table or {}
        self.fail = fail
        self.value = value
        self.seen = []

    def __call__(self, text, *base):
        self.seen.append(text)
        if self.table:  # placeholder texts produced by the token stub (concrete keys)
            if text in self.table:
                return self.table[text]
            return int(text, *base)
        if self.fail:
            raise ValueError("invalid literal for int()")
        return self.value
