"""FIELD harness family (DESIGN.md section 5): real <Type>FieldFormat objects under a real DataFormat."""
from .engine import assume
from .rowflow import untraced

TYPES = ("Integer", "Decimal", "Choice", "Constant", "DateTime", "Pattern", "RegEx", "Text")
EMPTY_VALUE = {"Integer": None, "Decimal": None, "DateTime": None, "Choice": "", "Constant": "", "Pattern": "",
               "RegEx": "", "Text": ""}
DEFAULT_RULE = {"Integer": "", "Decimal": "", "Choice": "ab,cd", "Constant": "ab", "DateTime": "DD.MM.YYYY",
                "Pattern": "a*", "RegEx": "a.*", "Text": ""}
# length declarations: (text, items) -- items as [(lo|None, hi|None)], None = not declared
LENGTHS = {
    "none": ("", None),
    "exact": ("2", [(2, 2)]),
    "lower": ("2...", [(2, None)]),
    "upper": ("...3", [(None, 3)]),
    "both": ("1...3", [(1, 3)]),
    "multi": ("1, 3...4", [(1, 1), (3, 4)]),
}
ALLOWED = {
    "none": (None, None),
    "one": ("97...122", [(97, 122)]),
    "two": ("48...57, 97...122", [(48, 57), (97, 122)]),
    # quoted letters in both cases (only used through Cid.read, not part of the grid)
    "quoted": ("'A'...'Z', \"a\"...\"f\"", [(65, 90), (97, 102)]),
}
FORMATS = ("delimited", "fixed", "excel", "ods")
FIXED_WIDTH = 3


def data_format(fmt, allowed_text=None, props=()):
    from cutplace import data

    with untraced():
        df = data.DataFormat(fmt)
        if allowed_text:
            df.set_property(data.KEY_ALLOWED_CHARACTERS, allowed_text)
        for k, v in props:
            df.set_property(k, v)
        df.validate()
        return df


def build_field(type_name, empty, length_text, rule, df, name="x"):
    from cutplace import fields

    with untraced():
        cls = getattr(fields, type_name + "FieldFormat")
        return cls(name, empty, length_text, rule, df)


def in_items(items, n):
    for lo, hi in items:
        if (lo is None or n >= lo) and (hi is None or n <= hi):
            return True
    return False


def blank_strip(cell):
    i, j = 0, len(cell)
    while i < j and ord(cell[i]) == 32:
        i += 1
    while j > i and ord(cell[j - 1]) == 32:
        j -= 1
    return cell[i:j]


OTHER_WS = (9, 10, 11, 12, 13, 28, 29, 30, 31, 133, 160, 5760, 8232, 8233, 8239, 8287, 12288)


def is_other_space(c):
    """white space other than the blank (what str.strip() removes besides ' ')"""
    o = ord(c)
    return o in OTHER_WS or 8192 <= o <= 8202


def guard_oracle(cell, fmt, empty_allowed, length_items, allowed_items, width=FIXED_WIDTH):
    """What the property says about the guards: -> ("reject"|"empty"|"hook", value handed to the type's hook).
    Cells the property is silent about are assumed away (fixed-width cells that start or end with white space
    other than the blank; over-wide blank-only cells)."""
    if allowed_items is not None:
        for c in cell:
            if not in_items(allowed_items, ord(c)):
                return "reject", None
    if fmt == "fixed":
        stripped = blank_strip(cell)
        if len(stripped) > 0:
            assume(not is_other_space(stripped[0]) and not is_other_space(stripped[-1]))
        if len(stripped) == 0:
            assume(len(cell) <= width)
            return ("empty", None) if empty_allowed else ("reject", None)
        if len(cell) > width:
            return "reject", None
        return "hook", stripped
    if len(cell) == 0:
        return ("empty", None) if empty_allowed else ("reject", None)
    if length_items is not None and not in_items(length_items, len(cell)):
        return "reject", None
    return "hook", cell
