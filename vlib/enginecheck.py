"""Engine micro-suite (DESIGN.md 4.4): CrossHair's model of the str/int/list operations the encoded cutplace
functions use must agree with a reference written with different primitives (index loops over code points).
Every query must be *confirmed*; the native cross-check in engine._execute additionally re-runs one concrete
model per path with plain CPython, which ties the reference itself to CPython.  A failure aborts the check with
exit 3 (the engine, not cutplace, is broken)."""
import re
from typing import List

from .engine import Query, assume

WS = (9, 10, 11, 12, 13, 28, 29, 30, 31, 32)  # ASCII-range code points for which str.isspace() is true


def _cps(s):
    return [ord(c) for c in s]


def _same(a, b):
    """string equality by length + code points (does not use str.__eq__ of the engine)"""
    if len(a) != len(b):
        return False
    for i in range(len(a)):
        if ord(a[i]) != ord(b[i]):
            return False
    return True


def _ascii(s, n):
    assume(len(s) <= n)
    for c in s:
        assume(ord(c) < 128)


def _ref_strip(s):
    i, j = 0, len(s)
    while i < j and ord(s[i]) in WS:
        i += 1
    while j > i and ord(s[j - 1]) in WS:
        j -= 1
    return s[i:j]


def e_concat(c: str, d: str):
    assume(len(c) == 1 and len(d) == 1)
    assume(33 <= ord(c) <= 126)
    a = (c + " ").rstrip() == c
    b = (c + "x")[:-1] == c and c == (c + " ").strip()
    e = ((c + " ").rstrip() == d) == (ord(c) == ord(d))
    return a and b and e


def e_strip(s: str):
    _ascii(s, 2)
    r = s.strip()
    ref = _ref_strip(s)
    return _same(r, ref) and (r == ref) and ((r == "") == (len(ref) == 0)) and (bool(r) == (len(ref) > 0)), ("n0" if len(ref) == 0 else "n+")


def e_slice(s: str, k: int):
    assume(len(s) <= 4 and 0 <= k <= 5)
    a = s[:k]
    b = s[k:]
    return (len(a) == min(k, len(s)) and len(a) + len(b) == len(s) and _same(a + b, s) and (a + b == s)
            and (s == a + b) and s[len(s):] == "" and (k >= len(s) or ord(s[k]) == ord(b[0])))


def e_cmp(s: str, t: str):
    assume(len(s) <= 3 and len(t) <= 3)
    eq = _same(s, t)
    pre = len(t) <= len(s) and _same(s[:len(t)], t)
    suf = len(t) <= len(s) and _same(s[len(s) - len(t):], t)
    return ((s == t) == eq and (t == s) == eq and (s != t) == (not eq) and s.startswith(t) == pre
            and s.endswith(t) == suf and (("ab" == s) == _same(s, "ab")) and ((s == "ab") == _same(s, "ab"))
            and ((s in ("ab", "c")) == (_same(s, "ab") or _same(s, "c")))), ("eqTrue" if eq else "eqFalse")


def e_in(c: str, s: str):
    assume(len(c) == 1 and len(s) <= 3)
    found = False
    for x in s:
        if ord(x) == ord(c):
            found = True
    t = (c + " ").strip() if ord(c) > 32 else c  # a sliced representation of the same text (E-PATCH2)
    return ((c in s) == found) and ((c in "ab,") == (ord(c) in (97, 98, 44))) and (chr(ord(c)) == c) and (
        len(t) == 0 or ord(t) == ord(c)) and (
        (t in "0123456789") == (48 <= ord(c) <= 57 or len(t) == 0)), ("fTrue" if found else "fFalse")


def e_lower(s: str):
    _ascii(s, 1)
    r = s.lower()
    ok = len(r) == len(s)
    for i in range(len(s)):
        o = ord(s[i])
        ok = ok and ord(r[i]) == (o + 32 if 65 <= o <= 90 else o)
    return ok


def e_int(a: int, b: int, c: int):
    lo, hi = (a, b) if a <= b else (b, a)
    inside = lo <= c <= hi
    return ((c >= lo and c <= hi) == inside and (not (c < lo or c > hi)) == inside and (-(-c)) == c
            and (c * -1) == -c and max(a, b) == hi and min(a, b) == lo and (a - b <= 0) == (a <= b)), ("inTrue" if inside else "inFalse")


def e_list(row: List[str], k: int):
    assume(len(row) <= 2 and 0 <= k <= 3)
    for c in row:
        assume(len(c) <= 1)
    padded = (row + [""] * 6)[:6]
    ok = len(padded) == 6
    for i in range(6):
        ok = ok and (_same(padded[i], row[i]) if i < len(row) else padded[i] == "")
    tail = row[k:]
    return ok and len(tail) == max(0, len(row) - k) and len(row[:k]) == min(k, len(row))


def e_twin_false(c: str):
    """reachability twin: must come back refuted"""
    assume(len(c) == 1)
    return False


_RX_END = re.compile("[a-c]*$")
_RX_END_M = re.compile("[a-c]*$", re.MULTILINE)
_RX_ENDZ = re.compile(r"[a-c]*\Z")


def e_regex_end(s: str):
    """'$' (with and without MULTILINE) and '\\Z' against an index-loop reference (E-PATCH4)"""
    assume(len(s) <= 2)
    for c in s:
        assume(ord(c) in (97, 98, 10, 120))
    n = len(s)
    run = 0
    while run < n and 97 <= ord(s[run]) <= 99:
        run += 1
    exp_z = run == n
    exp_end = run == n or (run == n - 1 and ord(s[run]) == 10)
    exp_m = run == n or ord(s[run]) == 10
    ok = ((_RX_ENDZ.match(s) is not None) == exp_z and (_RX_END.match(s) is not None) == exp_end and
          (_RX_END_M.match(s) is not None) == exp_m)
    return ok, ("end" if exp_end else "no")


def queries():
    out = []
    for fn, exp in ((e_concat, ()), (e_strip, ("n0", "n+")), (e_slice, ()), (e_cmp, ("eqTrue", "eqFalse")),
                    (e_in, ("fTrue", "fFalse")), (e_lower, ()), (e_int, ("inTrue", "inFalse")), (e_list, ()), (e_regex_end, ("end", "no"))):
        out.append(Query("engine/" + fn.__name__, "engine", (lambda mode, f=fn: f), bounds="micro-suite",
                         budget_s=120, per_path_timeout=30, expect=exp, witnesses=25))
    return out
