"""ROWFLOW harness family (DESIGN.md section 5): real Cid + real validio.Reader / rows / validate / Writer,
container readers replaced by S-ROWS, symbolic header count / limit / cells, an independent reference reader."""
import contextlib

from .engine import assume, is_native
from .envstubs import patched


def untraced():
    """NoTracing() while CrossHair traces, a null context otherwise (native mode)."""
    if is_native():
        return contextlib.nullcontext()
    from crosshair.tracers import NoTracing, is_tracing

    return NoTracing() if is_tracing() else contextlib.nullcontext()


def is_concrete_str(x):
    with untraced():
        return type(x) is str


def smart_repr():
    """S-FMT part 2, refined: concrete texts (field names!) keep their repr, symbolic ones become '<repr>'."""
    from cutplace import _compat

    def text_repr(text):
        if is_concrete_str(text):
            return repr(text)
        return "<repr>"

    return (_compat, "text_repr", text_repr)


def srows_patches():
    """S-ROWS: the four container readers yield the rows the harness passes as 'source'."""
    from cutplace import rowio

    def stub_for(original):
        def rows_of(source, *a, **k):
            with untraced():
                kind = "rows" if hasattr(source, "rows") else ("list" if type(source) is list else "real")
            if kind == "rows":
                return source.rows()
            if kind == "list":
                return iter(source)
            return original(source, *a, **k)  # e.g. the CID text itself, read through the real reader

        return rows_of

    return [(rowio, name, stub_for(getattr(rowio, name)))
            for name in ("delimited_rows", "excel_rows", "ods_rows", "fixed_rows")]


class FaultyRows:
    """row source that raises DataFormatError after k rows (k < 0: never)"""

    def __init__(self, rows, fault_after):
        self._rows = rows
        self.fault_after = fault_after

    def rows(self):
        from cutplace import errors

        for i, r in enumerate(self._rows):
            if i == self.fault_after:
                raise errors.DataFormatError("container fault injected by the harness")
            yield r
        if self.fault_after == len(self._rows):
            raise errors.DataFormatError("container fault injected by the harness")


def build_cid(text):
    """a fresh real Cid from CSV text, built natively (outside tracing)"""
    with untraced():
        from cutplace import interface

        return interface.create_cid_from_string(text)


def set_header(cid, header):
    """what DataFormat.header's setter does after its range check (assume instead of assert)"""
    assume(header >= 0)
    if not hasattr(cid.data_format, "_header"):
        from .engine import HarnessOutOfDate
        raise HarnessOutOfDate("DataFormat no longer keeps the header count in '_header': vlib/rowflow.set_header must follow")
    cid.data_format._header = header


# ------------------------------------------------------------------ field pool with simple predicates
class FieldSpec:
    def __init__(self, name, cid_row, ok, sample_ok, note):
        self.name = name
        self.cid_row = cid_row  # "f,<name>,<example>,<empty>,<length>,<type>,<rule>" without the leading marker/name
        self.ok = ok  # predicate on the cell text
        self.sample_ok = sample_ok  # a concrete accepted cell
        self.note = note


def _len_between(lo, hi):
    return lambda c: lo <= len(c) <= hi


def _in(*choices):
    def ok(c):
        for x in choices:
            if c == x:
                return True
        return False

    return ok


FIELD_POOL = {
    "t12": FieldSpec("t12", ",,,1...2,Text,", _len_between(1, 2), "ab", "Text, 1-2 characters"),
    "t01": FieldSpec("t01", ",,X,...1,Text,", _len_between(0, 1), "", "Text, may be empty, at most 1 character"),
    "t1": FieldSpec("t1", ",,,1,Text,", _len_between(1, 1), "z", "Text, exactly 1 character"),
    "ch": FieldSpec("ch", ",,,,Choice,\"a,b\"", _in("a", "b"), "a", "Choice a / b"),
    "t2": FieldSpec("t2", ",,,2...,Text,", lambda c: len(c) >= 2, "xy", "Text, at least 2 characters"),
}


def cid_text(field_keys, fmt="delimited", checks=(), extra=()):
    lines = ["d,format,%s" % fmt] + list(extra)
    for i, k in enumerate(field_keys):
        lines.append("f,f%d_%s%s" % (i, k, FIELD_POOL[k].cid_row))
    for c in checks:
        lines.append(c)
    return "\n".join(lines) + "\n"


def field_names(field_keys):
    return ["f%d_%s" % (i, k) for i, k in enumerate(field_keys)]


# ------------------------------------------------------------------ reference reader
def ref_read(rows, header, limit, field_keys, veto=None):
    """The reader the property describes, written independently of cutplace.

    -> list of ("row", row) / ("err", line0, cell0, field_name_or_None).  veto(row) -> True if a row check rejects."""
    out = []
    n = len(field_keys)
    for i, row in enumerate(rows, 1):
        if i <= header:
            continue
        if limit is None or i <= limit:
            bad = None
            name = None
            if len(row) != n:
                bad = 0
            else:
                for j in range(n):
                    if not FIELD_POOL[field_keys[j]].ok(row[j]):
                        bad = j
                        name = "f%d_%s" % (j, field_keys[j])
                        break
            if bad is None and veto is not None and veto(row):
                bad = 0
                name = "<check>"
            if bad is not None:
                out.append(("err", i - 1, bad, name))
                continue
        out.append(("row", row))
    return out


def observe(result):
    """normalise what validio produced: rows stay rows, errors become ("err", line, cell)"""
    from cutplace import errors

    out = []
    for r in result:
        if isinstance(r, errors.DataError):
            out.append(("err", r.location.line, r.location.cell))
        else:
            out.append(("row", r))
    return out


def same_output(got, exp):
    """got: observe() output; exp: ref_read() output"""
    if len(got) != len(exp):
        return False
    for g, e in zip(got, exp):
        if g[0] != e[0]:
            return False
        if g[0] == "row":
            if len(g[1]) != len(e[1]):
                return False
            for a, b in zip(g[1], e[1]):
                if a != b:
                    return False
        else:
            if g[1] != e[1] or g[2] != e[2]:
                return False
    return True


def classify(exp):
    rows = sum(1 for e in exp if e[0] == "row")
    errs = len(exp) - rows
    return "acc%d-rej%d" % (min(rows, 3), min(errs, 3))


# ------------------------------------------------------------------ harness-defined check (resolved by class name)
_veto_class = []


def veto_check_class():
    """VetoCheck: rule '<field> <value>' rejects every row whose <field> equals <value> (a row check that can fail)."""
    from cutplace import checks, errors
    if _veto_class and checks.AbstractCheck not in _veto_class[0].__mro__:
        del _veto_class[:]  # the modules were reloaded: define the class again on the current base class
    if not _veto_class:

        class VetoCheck(checks.AbstractCheck):
            def __init__(self, description, rule, available_field_names, location=None):
                super().__init__(description, rule, available_field_names, location)
                self._veto_field, self._veto_value = rule.split(" ", 1)

            def check_row(self, field_name_to_value_map, location):
                if field_name_to_value_map[self._veto_field] == self._veto_value:
                    raise errors.CheckError("row vetoed by harness check", location)

        _veto_class.append(VetoCheck)
    return _veto_class[0]


# ------------------------------------------------------------------ replay through the real csv container
def real_source_or_rows(cid, rows):
    """A real io.StringIO holding `rows` as delimited text if the csv module round-trips them exactly; else None."""
    import io
    from cutplace import rowio

    try:
        out = io.StringIO(newline="")
        w = rowio.DelimitedRowWriter(out, cid.data_format)
        w.write_rows(rows)
        text = out.getvalue()
        back = list(rowio.delimited_rows(io.StringIO(text, newline=""), cid.data_format))
        if back == [list(r) for r in rows]:
            return io.StringIO(text, newline="")
    except Exception:  # noqa
        pass
    return None


# ------------------------------------------------------------------ running the APIs
class CountingRows:
    """S-ROWS source that counts how many rows were pulled from it"""

    def __init__(self, rows, fault_after=-1):
        self._rows = rows
        self.pulled = 0
        self.fault_after = fault_after

    def rows(self):
        from cutplace import errors

        for i, r in enumerate(self._rows):
            if i == self.fault_after:
                raise errors.DataFormatError("container fault injected by the harness")
            self.pulled += 1
            yield r
        if self.fault_after == len(self._rows):
            raise errors.DataFormatError("container fault injected by the harness")


def run_api(cid, source, api, limit=None):
    """api: rows-yield | rows-continue | rows-raise | validate  -> (observed items, raised or None)
    raised = (exception class name, line, cell-or-None)"""
    from cutplace import validio, errors

    items = []
    raised = None
    try:
        if api == "validate":
            validio.validate(cid, source, validate_until=limit)
        elif api == "reader-twice":
            # the same Reader iterated twice over a re-readable source: both passes must look like a first pass
            reader = validio.Reader(cid, source, on_error="yield", validate_until=limit)
            items = list(reader.rows())
            items = items + list(reader.rows())
            reader.close()
        else:
            for r in validio.rows(cid, source, on_error=api.split("-")[1], validate_until=limit):
                items.append(r)
    except errors.DataError as e:
        loc = e.location
        raised = (type(e).__name__, None if loc is None else loc.line,
                  None if (loc is None or not loc._has_cell) else loc.cell)
    return observe(items), raised


def expected_api(exp_yield, api, faulted=False):
    """from the reference 'yield' output -> (expected items, expected raise (line, cell) or None) for another api"""
    if api == "rows-yield":
        return exp_yield, None
    if api == "reader-twice":
        return exp_yield + exp_yield, None
    if api == "rows-continue":
        return [e for e in exp_yield if e[0] == "row"], None
    out = []
    for e in exp_yield:
        if e[0] == "err":
            return (out if api == "rows-raise" else []), (e[1], e[2])
        out.append(e)
    return (out if api == "rows-raise" else []), None
