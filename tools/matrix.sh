#!/bin/bash
# usage: tools/matrix.sh [tier]   -> runs every seeded change against the check of its own property; writes seeded/MATRIX.txt
TIER=${1:-quick}
OUT=/verif/seeded/MATRIX.$TIER${SUFFIX}.txt
: > $OUT.tmp
run() { s=$1; p=$(python3 -c "import json;print(json.load(open('/verif/seeded/$s/meta.json'))['property'])"); base=$(python3 -c "import json;print(json.load(open('/verif/seeded/$s/meta.json')).get('base_commit','').split(' ')[0])"); BASE=$base /verif/tools/mutant.sh /verif/seeded/$s/patch.diff $TIER $p 2>&1 | grep -v Warn | grep "exit=" | sed "s|/verif/seeded/||" >> $OUT.tmp; }
export -f run; export TIER OUT
ls /verif/seeded | grep -e "${ONLY:-^C}" | xargs -P ${PAR:-3} -I{} bash -c 'run {}'
sort $OUT.tmp > $OUT; rm -f $OUT.tmp; cat $OUT | cut -c1-160
