#!/usr/bin/env python3
"""Writes /verif/MANIFEST.json from the table below (single source of truth for what is claimed)."""
import json, os
HERE = os.path.dirname(os.path.dirname(os.path.abspath(__file__)))
TRUST = ("Trusted base: CrossHair 0.0.110's symbolic model of CPython str/int/list (patched, DESIGN.md 4.4; engine "
         "micro-suite + native re-run of one concrete model per path), z3 5.1.0, and the environment stubs listed in the "
         "evidence file (validated natively). Verdicts are bounded: they hold for every input within the bounds stated "
         "per query in the evidence file, nothing is claimed outside them.")
TECH = "bounded symbolic execution of the real Python functions (CrossHair proxies + z3), path tree exhausted per query; counterexamples replayed natively"
CLAIMED = {
    "C10": ("6 C10", "Solver part: every field type's validated() with a symbolic cell (up to 3 characters) where the C callee produces every documented outcome (exception, any finite value, NaN / sNaN / +-Infinity / -0 / extreme exponents) raises nothing but FieldValueError, in two (thorough: four) formats; the exit-code mapping of applications.main for every exception kind. Hostile CID cells (one at a time and length x example pairwise, ~40000 CIDs), hostile data cells through the real callees and truncated / bit-flipped ODS and XLSX containers are ENUMERATED natively (tokenizer, _decimal, zlib, xlrd are C) - that part is exploration, stated as such."),
    "C09": ("6 C09", "Three sub-claims decided by the solver: row dispatch of Cid.read for every ASCII marker cell up to 2-3 characters, row numbering for every pattern of empty / comment / field / unknown rows (recorded row numbers and the row named by the rejection); fields.validated_field_name for every text up to 2-3 characters over a 10-letter alphabet (solver-enumerated); length admissibility of add_field_format_row for all limits of 10 range shapes x 3 formats. The defect catalogue (33 defects x 2 positions) and meaning-preserving rewrites are exercised natively on a concrete base CID."),
    "C16": ("6 C16", "Sheet selection, string / boolean dispatch and padding of excel_rows decided over a fake workbook (S-XLRD) for every requested sheet, every string cell up to 3 characters and all boolean values. Number, date and time rendering and the XlsxRowWriter round trip are float / C territory and are exercised natively on sample workbooks made by xlsxwriter (stated as such; not a solver verdict)."),
    "C17": ("6 C17", "Relational query per field type: the same declaration loaded through the real CID loader under Format delimited / ods / excel gives the same verdict and value for every cell (unbounded or bounded as stated) and every parser outcome (S-INT / S-DEC / S-STRP), except the documented Excel date suffix. Storage of one CID and one table as csv / ods / xlsx files is compared natively."),
    "C15": ("6 C15", "rowio.ods_rows over real ElementTree trees of encoder-made documents with symbolic repeat counts (S-INT and as text through the real int()), symbolic requested sheet (incl. tables that are not sheets), symbolic cell texts, and archive / parser faults of every documented exception type (S-ZIP / S-XML); each optional ODF encoding (column runs, row runs, white space elements, spans, paragraphs, empty paragraphs) and broken archives exercised natively on real files. One genuine defect (row runs) is a recorded known finding."),
    "C14": ("6 C14", "Real Writer + real FixedRowWriter on a recording stream: the characters written are exactly the padded accepted rows with the declared line delimiter (one fully symbolic row per query in the quick tier, others concrete accepted / rejected rows; header 0..1; a target that cannot encode a character; a path target must be closed even when the end-of-data check fails); delimited: rows handed to the csv writer = accepted rows (S-CSVW); read-back: every text in written form is accepted row by row by real fixed_rows + Reader."),
    "C18": ("6 C18", "applications.main/process/CutplaceApp.validate with option parsing, CID loader and Reader stubbed: the exit code decided for every list of 0-3 data files with symbolic per-file outcome (accepted / data error / check error at close / unreadable) and CID outcome; every file up to the first unreadable one is judged in order; the --until mapping decided for every integer."),
    "C19": ("6 C19", "Integer column capacity decided for all lower <= upper (one and two range items, unbounded integers up to the dialect's maximum precision) for the Transact-SQL, DB2 and Oracle dialects through the real IntegerFieldFormat.sql_ansi_type + dialect.sql_type + SqlFactory; NOT NULL / order / quoting decided for all empty-flag combinations of 1-4 fields in four dialects. Keyword sets, decimal digits and text lengths are concrete and checked natively. One genuine defect is a recorded known finding."),
    "C11": ("6 C11", "DataFormat.validate decided on a directly assigned state (item delimiter / quote any single character, all escape, line delimiter and separator settings) for three formats; choice-valued properties decided for every value text (unbounded; case-insensitive ones for ASCII up to 3-5 characters); Header / Sheet for every integer (S-INT); the literal item delimiter for every single character. Spellings of code points, applicability per format, defaults and encodings are checked natively on pools (tokenizer and codecs are C)."),
    "C02": ("6 C02", "Per type, the real constructor and validated()/validated_value() with the C callees stubbed: Integer (cell text unbounded, parsed value unbounded; rule / length-derived / default ranges; fixed-width stripping; plus the real int() on canonical digit texts), Decimal (translation of every cell up to 4-6 characters under all separator conventions, range decided for all k/100), Choice/Constant/Text (every cell, no length bound), DateTime (what reaches strptime incl. the Excel suffix rule, two fields with different layouts in turn), RegEx (ASCII cells up to 3-5 characters vs an independent matcher), Pattern (solver-enumerated over an explicit alphabet). Calendar validity itself is not claimed."),
    "C03": ("6 C03", "AbstractFieldFormat.validated characterised completely for every built-in type (constructed for real; the type's hook replaced by a recorder with a symbolic verdict): reject / empty value without consulting the hook / exactly one hook call with the (blank-stripped) cell, for every Unicode cell up to 3-4 characters, over the grid type x empty flag x 6 length declarations x 3 allowed-character ranges x 4 formats (quick: fixed core + seeded extras; thorough: full grid)."),
    "C05": ("6 C05", "rows(yield)+close with the real IsUnique / DistinctCount checks decided against an oracle that follows the property text (keys remembered only for accepted rows; distinct values counted for rows that reached the check) for all key assignments over a 3-letter alphabet, all validity patterns of the other cell, header and limit within 2-3 rows (thorough: 5 rows with enumerated keys); error row, first-occurrence row and end-of-data verdict compared. One genuine defect is a recorded known finding."),
    "C08": ("6 C08", "One inductive step: from an ARBITRARY state of the CID's checks (any remembered keys at any rows, any positive counts) each operation (rows in three modes, validate, writer, a reader created before the state was dirtied, an unclosed reader followed by another) has exactly the outcome it has on a fresh CID, for all tables within 2-3 rows. Covers histories of any length if the representation invariant is right; counterexamples are replayed as real histories."),
    "C20": ("6 C20", "The complete call log of harness-defined recording field formats and checks (resolved by class name through the real Cid) equals the log the protocol prescribes, decided for all headers, limits, cell contents, per-row vetoes and end-of-data failures within 1-3 rows x 1-3 fields x 1-2 checks, reader (three modes), writer, fixed and delimited, allowed characters, and two consecutive runs on one CID."),
    "C06": ("6 C06", "The relation between the outcomes of the three error modes (continue = accepted rows of yield; raise = prefix + the same first error; counters add up; a container fault propagates in every mode and nothing is produced after it) decided for all cell contents, header counts and fault positions within 1-3 rows (thorough up to 5) under one shared CID with an IsUnique check, plus the real fixed_rows on every text up to 6 (8) characters."),
    "C04": ("6 C04", "validio.rows(on_error='yield') decided against an independent reference reader for every table shape in the bounds (1-3 fields quick / up to 5 thorough, 0-3 / 0-5 rows, ragged widths) with up to 6 symbolic cells (any Unicode, len<=2) and symbolic header; error line, cell, R<r>C<c> text and field name checked. Container readers are stubbed (S-ROWS)."),
    "C07": ("6 C07", "rows() in three modes, validate() and a re-iterated Reader decided for all header counts 0..3, all limits and all cell contents (every cell symbolic) within 0-4 (thorough 0-6) rows; --until mapping decided for every integer with argparse stubbed."),
    "C13": ("6 C13", "rowio.fixed_rows decided for every Unicode text up to the length bound (quick 8, thorough 10-11 characters) for all 39 width lists x 5 delimiter settings against an independent recogniser of the record language."),
    "C01": ("6 C01", "Range.validate decided for all integers on arbitrary disjoint item lists (<= 4 items); Range.__init__ "
            "decided per token shape (1-4 items) for all limit values; DecimalRange for all k/10^s, |k|<10^6; every "
            "spelling pushed through the real tokenizer natively."),
}
# native parts added later (concrete cases through code the solver cannot enter; exploration, labelled as such in the evidence)
NATIVE = {
    "C02": " Native part: documented DateTime value ranges, Decimal texts against decimal.Decimal, numeric and non-ASCII RegEx / Pattern cases.",
    "C03": " Plus consecutive rows through the real Reader and 'allowed characters' declared after the field (Cid.read). Native part: the same cells through the field, a text stream and a file path.",
    "C04": " Native part: composite keys that collide under joining / rendering, malformed rows with hostile items in three modes, CID files rewritten between validations.",
    "C05": " Also the validate-only API, Integer and pooled Text keys, two DistinctCount checks, a second pass. Native part: colliding composite keys, field names differing in case.",
    "C06": " Also a symbolic validation limit. Native part: real broken containers (csv dialects, undecodable bytes, short fixed records, broken archives) in the three modes under the same relation.",
    "C07": " Also the Writer under Header 1 and 2. Native part: real csv texts with blank lines and multi-line cells x header x limit against the reference reader and validate().",
    "C08": " Also real two-run histories (delimited and fixed format, check order), iterators obtained / readers created before another run, a forgotten validator collected mid-run.",
    "C09": " Native part also: grid of field rows (format x length x example x mark x type), sound CIDs with case-carrying values, types defined after a first Cid.",
    "C11": " Native part also: numeric property texts against int(), values written in CID rows versus set directly.",
    "C13": " Also the encoding argument. Native part: inputs of up to 55,000 characters through stream and path against the same recogniser.",
    "C14": " Also two whole-file checks declared against the alphabetical order of their names, line delimiter none. Native part: Writer -> csv module -> Reader round trips of hostile values under nine dialects (stream and path), fixed round trips through a path.",
    "C15": " Native part also: eight document encodings, undecodable encodings, pretty-printed documents, commented cells.",
    "C16": " Native part also: cells of different kinds storing equal numbers, texts of 32,767 characters, sparse rows.",
    "C17": " Native part also: suffix case, commented ODS cells, rows ending in empty cells, files rewritten between validations.",
    "C18": " Native part also: --until x header x bad row against validate(); large files the reader gives up on; odd files and file names against the API.",
    "C19": " Native part also: keyword case, keyword quoting across dialect orders in one process, factory reuse.",
    "C20": " Also a multi-item length with a gap, 'allowed characters' declared after the fields, a validator left through its with-block by an error, plugin folders.",
}
NOT_APPLICABLE = {
    "C12": "the round trip is performed by CPython's C module _csv; symbolic cells are realised at that boundary, so no solver verdict over the real code is possible (DESIGN.md section 6, C12)",
}
PENDING = "check under construction in this session (see DESIGN.md section 6 for the design); not claimed yet"

def main():
    props = [json.loads(l)["id"] for l in open(os.path.join(HERE, "properties.jsonl"))]
    checks = []
    for pid in props:
        if pid in CLAIMED:
            ref, text = CLAIMED[pid]
            text += NATIVE.get(pid, "")
            checks.append(dict(
                property_id=pid,
                quick_cmd="./check %s --tier quick" % pid,
                thorough_cmd="./check %s --tier thorough" % pid,
                evidence_file="evidence/%s.json" % pid,
                replay_cmd_template="./check %s --replay {path}" % pid,
                engine="crosshair-z3",
                level_claimed=dict(category="model_checking", text=text, design_ref="DESIGN.md section " + ref),
                level_note=TRUST, technique=TECH))
    na = [dict(property_id=p, reason=NOT_APPLICABLE.get(p, PENDING)) for p in props if p not in CLAIMED]
    doc = dict(
        version=1, setup_cmd="./setup.sh",
        hooks=dict(guard="CUTPLACE_VERIF (unused: no hooks or instrumentation were added to the repository)",
                   enable="none needed; checks import /repo's working tree directly",
                   baseline_off_cmd="tools/baseline.sh", source_commits=[], add_only=True),
        engines=[dict(name="crosshair-z3", path="vlib/engine.py", serves_properties=sorted(CLAIMED),
                      kind_free_text="in-process CrossHair 0.0.110 driver (symbolic execution of the real Python code, z3 5.1.0), one forked process per query")],
        checks=checks, not_applicable=na,
        notes="Exit codes of ./check: 0 held (known findings allowed), 1 VIOLATION, 3 harness error or inconclusive query (never reported as success). Repairs of genuine defects are listed in known_findings.json under 'fixed'.")
    json.dump(doc, open(os.path.join(HERE, "MANIFEST.json"), "w"), indent=1)
    print("claimed:", sorted(CLAIMED), "not claimed:", [e["property_id"] for e in na])

main()
