#!/bin/bash
# usage: tools/verify_seed.sh <seed-dir containing patch.diff and demo_test.py>  -> prints one line verdict, exit 0 if the seed is valid
# Valid = patch applies to /repo HEAD; the repository's suite passes exactly the stable baseline with the patch;
#         the demo fails with the patch and passes without it.  Uses a scratch worktree under /tmp, removed afterwards.
D=$(readlink -f "$1"); NAME=$(echo "$D" | tr '/' '_')
WT=/tmp/mut/verify$NAME
rm -rf "$WT"; git -C /repo worktree prune; git -C /repo worktree add -q --detach "$WT" HEAD || exit 2
cd "$WT"
run_demo() { /venv/bin/python -m pytest -q -p no:cacheprovider "$D/demo_test.py" >/tmp/mut/demo$NAME.log 2>&1; echo $?; }
DEMO_HEAD=$(run_demo)
if ! git apply "$D/patch.diff" 2>/tmp/mut/apply$NAME.log; then echo "$1: PATCH DOES NOT APPLY"; git -C /repo worktree remove --force "$WT"; exit 1; fi
DEMO_MUT=$(run_demo)
SUITE=$(/verif/tools/baseline.sh "$WT" | head -1)
FULL=$(/venv/bin/python -m pytest -q -p no:cacheprovider 2>&1 | tail -1)
cd /; git -C /repo worktree remove --force "$WT"
OK=1
[ "$DEMO_HEAD" = "0" ] || OK=0; [ "$DEMO_MUT" != "0" ] || OK=0
echo "$SUITE" | grep -q "stable_missing=0" || OK=0
echo "$1: demo@HEAD=$DEMO_HEAD demo@patch=$DEMO_MUT suite: $SUITE | $FULL => $([ $OK = 1 ] && echo VALID || echo INVALID)"
[ $OK = 1 ]
