#!/bin/bash
# Runs the repository's pinned test suite (guard off: there are no hooks) and compares with /root/.vp/BASELINE.json.
# usage: tools/baseline.sh [repo_dir]   -> exit 0 iff every stable_pass test passes
REPO=${1:-/repo}
OUT=$(mktemp /tmp/baseline.XXXXXX.xml)
cd "$REPO" && /venv/bin/python -m pytest -ra -q -p no:cacheprovider --timeout=900 --continue-on-collection-errors --junitxml="$OUT" >/dev/null 2>&1
/venv/bin/python - "$OUT" <<'PY'
import json, sys, xml.etree.ElementTree as ET
base = json.load(open("/root/.vp/BASELINE.json"))
stable = set(base["stable_pass"])
passed = set(); failed = set()
for tc in ET.parse(sys.argv[1]).getroot().iter("testcase"):
    name = "%s::%s" % (tc.get("classname"), tc.get("name"))
    parts = tc.get("classname").rsplit(".", 1)
    name = "%s::%s" % (".".join(parts[:-1]) + "." + parts[-1] if len(parts) > 1 else tc.get("classname"), tc.get("name"))
    bad = any(ch.tag in ("failure", "error") for ch in tc)
    (failed if bad else passed).add(name)
missing = sorted(stable - passed)
print("passed=%d failed=%d stable=%d stable_missing=%d" % (len(passed), len(failed), len(stable), len(missing)))
for m in missing: print("  MISSING", m)
sys.exit(1 if missing else 0)
PY
RC=$?
rm -f "$OUT"
exit $RC
