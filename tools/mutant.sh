#!/bin/bash
# usage: tools/mutant.sh <patch.diff | -R:commit> <tier> <CHECK-ID>...
# Applies the patch to a scratch worktree of /repo HEAD under /tmp, runs the checks against it with
# VERIF_REPO pointing there and evidence/replays redirected to a scratch dir, removes the worktree.
# Prints one line per check: <check> exit=<rc>.
P="$1"; TIER="$2"; shift 2
TAG=$(echo "$P" | tr '/:' '__')
WT=/tmp/mut/run$TAG.$$
git -C /repo worktree add -q --detach "$WT" ${BASE:-HEAD} || exit 2
if [[ "$P" == -R:* ]]; then
  git -C "$WT" revert --no-commit "${P#-R:}" >/dev/null 2>&1 || { echo "cannot revert $P"; git -C /repo worktree remove --force "$WT"; exit 2; }
else
  git -C "$WT" apply "$(readlink -f "$P")" || { echo "cannot apply $P"; git -C /repo worktree remove --force "$WT"; exit 2; }
fi
OUT=/tmp/mut/out$TAG.$$; mkdir -p "$OUT"
for C in "$@"; do
  VERIF_REPO="$WT" VERIF_OUT="$OUT" /verif/check "$C" --tier "$TIER" > "$OUT/$C.log" 2>&1
  RC=$?
  echo "$P $C exit=$RC $(grep -c '^VIOLATION' "$OUT/$C.log") violation(s) :: $(grep -m1 -A1 '^VIOLATION' "$OUT/$C.log" | tail -1 | cut -c1-220)"
  [ $RC = 3 ] && grep -E "HARNESS-ERROR|INCONCLUSIVE" "$OUT/$C.log" | head -3
done
git -C /repo worktree remove --force "$WT"; rm -rf "$OUT"
