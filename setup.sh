#!/bin/bash
# MANIFEST.setup_cmd: build the overlay interpreter /verif/.venv offline.
#  * created from /venv/bin/python (3.12.1 -- the interpreter the repository's baseline uses)
#  * sees /venv's site-packages (xlrd, xlsxwriter, pytest ...) through a .pth file; /venv is not modified
#  * crosshair-tool + z3-solver come from the offline wheelhouse
# Idempotent; safe to call from every check (it returns at once when the venv is complete).
set -e
cd "$(dirname "$0")"
VENV=/verif/.venv
if [ -x "$VENV/bin/python" ] && "$VENV/bin/python" -c "import crosshair, z3, xlrd" >/dev/null 2>&1; then
    exit 0
fi
(
  flock 9
  if [ -x "$VENV/bin/python" ] && "$VENV/bin/python" -c "import crosshair, z3, xlrd" >/dev/null 2>&1; then
      exit 0
  fi
  rm -rf "$VENV"
  /venv/bin/python -m venv "$VENV"
  SP="$VENV/lib/python3.12/site-packages"
  printf '/venv/lib/python3.12/site-packages\n' > "$SP/verif_overlay.pth"
  PIP_NO_INDEX=1 "$VENV/bin/pip" install -q --no-index --find-links /opt/veriftools/wheels crosshair-tool >/dev/null
  "$VENV/bin/python" -c "import crosshair, z3, xlrd; print('verif venv ready: crosshair', crosshair.__version__, 'z3', z3.get_version_string())"
) 9>/tmp/verif-setup.lock
